"""Entry point of the verification machinery: ./check <property id> --tier quick|thorough."""
from __future__ import annotations

import argparse
import importlib
import os
import shutil
import sys
import traceback

HERE = os.path.dirname(os.path.abspath(__file__))
sys.path.insert(0, HERE)


def main() -> int:
    ap = argparse.ArgumentParser()
    ap.add_argument("prop")
    ap.add_argument("--tier", default=os.environ.get("VERIF_TIER", "quick"), choices=["quick", "thorough"])
    ap.add_argument("--replay", default=None)
    ap.add_argument("--repo", default="/repo")
    a = ap.parse_args()
    seed = int(os.environ.get("VERIF_SEED", "0") or 0)
    src = os.path.join(a.repo, "src")
    if a.repo != "/repo":
        sys.path.insert(0, src)
        os.environ["PYTHONPATH"] = src + os.pathsep + os.environ.get("PYTHONPATH", "")
        # runs against a scratch copy (self-tests, seeded changes) must not overwrite the evidence of the real tree
        # (nor leave replay files among those of the real tree); a caller running several at once names its own directory
        os.environ.setdefault("VERIF_EVIDENCE_DIR", os.path.join(HERE, ".scratch", "evidence-other-repo"))
        os.makedirs(os.environ["VERIF_EVIDENCE_DIR"], exist_ok=True)
    import physt  # noqa
    if not os.path.abspath(physt.__file__).startswith(os.path.abspath(src)):
        print(f"machinery error: physt imported from {physt.__file__}, expected under {src}", file=sys.stderr)
        return 2
    from lib.tlc import MachineryError
    try:
        if a.prop == "selftest":
            mod = importlib.import_module("props.selftest")
        else:
            mod = importlib.import_module("props." + a.prop.lower())
        if a.replay:
            return mod.replay(a.replay)
        return mod.run(a.tier, seed)
    except MachineryError as ex:
        print(f"machinery error: {ex}", file=sys.stderr)
        return 2
    except Exception:
        traceback.print_exc()
        return 2
    finally:
        sc = os.path.join(HERE, ".scratch")
        if os.path.isdir(sc):
            for d in os.listdir(sc):
                if f"-{os.getpid()}-" in d:
                    shutil.rmtree(os.path.join(sc, d), ignore_errors=True)


if __name__ == "__main__":
    sys.exit(main())
