#!/venv/bin/python
"""Self-test of the machinery (DESIGN.md 6): every seeded change and every reverted fix must be reported by the check of
the property it breaks, every semantic no-op must keep the checks silent.  Patches are applied to a scratch copy of
/repo/src outside /repo and /verif; evidence and replay files of these runs go to .scratch/, never to evidence/.

    tools/selftest.py [--only ID ...] [--seeds] [--regress] [--noops] [--jobs N] [--tier quick|thorough]

Without --seeds/--regress/--noops all three groups run.
"""
import argparse
import concurrent.futures as cf
import glob
import json
import os
import shutil
import subprocess
import sys
import tempfile

VERIF = os.path.dirname(os.path.dirname(os.path.abspath(__file__)))
NOOP_CHECKS = {"exception-message-and-class": ["C05", "C18"], "copy-spelling": ["C12", "C05"], "reorder-independent-statements": ["C03"],
               "searchsorted-equivalent": ["C01", "C03"], "contextvar-token-local-rename": ["C19"]}


def run_check(prop, src_root, tier, tag):
    env = dict(os.environ)
    env["VERIF_EVIDENCE_DIR"] = os.path.join(VERIF, ".scratch", "selftest-evidence", tag)
    p = subprocess.run([os.path.join(VERIF, "check"), prop, "--tier", tier, "--repo", src_root], cwd=VERIF, capture_output=True, text=True,
                       timeout=6000, env=env)
    nv = sum(1 for line in p.stdout.splitlines() if line.startswith("VIOLATION"))
    return p.returncode, nv


def with_patch(patch, fn):
    tmp = tempfile.mkdtemp(prefix="physt-selftest-")
    try:
        shutil.copytree("/repo/src", os.path.join(tmp, "src"))
        r = subprocess.run(["patch", "-p1", "-s", "--no-backup-if-mismatch", "-i", patch], cwd=tmp, capture_output=True, text=True)
        if r.returncode != 0:
            return None
        return fn(tmp)
    finally:
        shutil.rmtree(tmp, ignore_errors=True)


def case_mutant(name, patch, props, tier):
    """A change that breaks a property: at least one of the named checks must exit 1 with a VIOLATION line."""
    res = with_patch(patch, lambda tmp: [(p,) + run_check(p, tmp, tier, name) for p in props])
    if res is None:
        return name, "NOT-APPLICABLE", "patch does not apply to the current tree"
    ok = any(rc == 1 and nv > 0 for (_p, rc, nv) in res)
    return name, "caught" if ok else "MISSED", res


def case_noop(name, patch, props, tier):
    res = with_patch(patch, lambda tmp: [(p,) + run_check(p, tmp, tier, name) for p in props])
    if res is None:
        return name, "NOT-APPLICABLE", "patch does not apply to the current tree"
    ok = all(rc == 0 for (_p, rc, _nv) in res)
    return name, "silent" if ok else "FALSE ALARM", res


def main():
    ap = argparse.ArgumentParser()
    ap.add_argument("--only", nargs="*")
    ap.add_argument("--seeds", action="store_true")
    ap.add_argument("--regress", action="store_true")
    ap.add_argument("--noops", action="store_true")
    ap.add_argument("--jobs", type=int, default=3)
    ap.add_argument("--tier", default="quick")
    a = ap.parse_args()
    every = not (a.seeds or a.regress or a.noops)
    jobs = []
    if a.seeds or every:
        for d in sorted(glob.glob(os.path.join(VERIF, "seeded", "C*"))):
            sid = os.path.basename(d)
            meta = json.load(open(os.path.join(d, "meta.json")))
            props = [c.split(":")[0] for c in meta["checks_run"] if ":rc=1" in c] or [meta["breaks_property"]]
            jobs.append((case_mutant, sid, os.path.join(d, "patch.diff"), props))
    if a.regress or every:
        for e in json.load(open(os.path.join(VERIF, "seeded", "regress", "index.json"))):
            fn = case_noop if e.get("expect") == "silent" else case_mutant      # a revert made unreachable by a later fix is a no-op
            jobs.append((fn, "revert-" + e["name"], os.path.join(VERIF, "seeded", "regress", e["name"] + ".diff"), e["properties"][:1]))
    if a.noops or every:
        for f in sorted(glob.glob(os.path.join(VERIF, "seeded", "noop", "*.diff"))):
            name = os.path.basename(f)[:-5]
            jobs.append((case_noop, name, f, NOOP_CHECKS.get(name, ["C03"])))
    if a.only:
        jobs = [j for j in jobs if j[1] in a.only or j[1].replace("revert-", "") in a.only]
    rows, bad, na = [], 0, 0
    with cf.ThreadPoolExecutor(max_workers=max(1, a.jobs)) as ex:
        futs = [ex.submit(fn, name, patch, props, a.tier) for (fn, name, patch, props) in jobs]
        for fu in cf.as_completed(futs):
            name, verdict, res = fu.result()
            rows.append((name, verdict, res))
            bad += verdict in ("MISSED", "FALSE ALARM")
            na += verdict == "NOT-APPLICABLE"
            print(name, verdict, res, flush=True)
    rows.sort()
    os.makedirs(os.path.join(VERIF, ".scratch"), exist_ok=True)
    json.dump(rows, open(os.path.join(VERIF, ".scratch", "selftest.json"), "w"), indent=1)
    shutil.rmtree(os.path.join(VERIF, ".scratch", "selftest-evidence"), ignore_errors=True)
    print(f"selftest: {len(rows)} cases, {bad} failures, {na} patches not applicable to this tree")
    return 1 if bad else 0


if __name__ == "__main__":
    sys.exit(main())
