#!/venv/bin/python
"""Self-test of the machinery (DESIGN.md 6): every seeded change must be reported by the check of the property it breaks,
every semantic no-op must keep the checks silent.  Patches are applied to a scratch copy of /repo/src outside /repo and
/verif; evidence of these runs goes to .scratch/, never to evidence/.

    tools/selftest.py [--only ID ...] [--noops] [--jobs N]
"""
import argparse
import glob
import json
import os
import shutil
import subprocess
import sys
import tempfile

VERIF = os.path.dirname(os.path.dirname(os.path.abspath(__file__)))
NOOP_CHECKS = {"exception-message-and-class": ["C05", "C18"], "copy-spelling": ["C12", "C05"], "reorder-independent-statements": ["C03"],
               "searchsorted-equivalent": ["C01", "C03"], "contextvar-token-local-rename": ["C19"]}


def run_check(prop, src_root):
    p = subprocess.run([os.path.join(VERIF, "check"), prop, "--repo", src_root], cwd=VERIF, capture_output=True, text=True, timeout=3000)
    return p.returncode, p.stdout.count("\nVIOLATION") + (1 if p.stdout.startswith("VIOLATION") else 0)


def with_patch(patch, fn):
    tmp = tempfile.mkdtemp(prefix="physt-selftest-")
    try:
        shutil.copytree("/repo/src", os.path.join(tmp, "src"))
        r = subprocess.run(["patch", "-p1", "-s", "-i", patch], cwd=tmp, capture_output=True, text=True)
        if r.returncode != 0:
            return None
        return fn(tmp)
    finally:
        shutil.rmtree(tmp, ignore_errors=True)


def main():
    ap = argparse.ArgumentParser()
    ap.add_argument("--only", nargs="*")
    ap.add_argument("--noops", action="store_true")
    a = ap.parse_args()
    bad = 0
    rows = []
    if not a.noops:
        for d in sorted(glob.glob(os.path.join(VERIF, "seeded", "C*"))):
            sid = os.path.basename(d)
            if a.only and sid not in a.only:
                continue
            meta = json.load(open(os.path.join(d, "meta.json")))
            props = [c.split(":")[0] for c in meta["checks_run"] if ":rc=1" in c] or [meta["breaks_property"]]
            res = with_patch(os.path.join(d, "patch.diff"), lambda tmp: [(p,) + run_check(p, tmp) for p in props])
            ok = res is not None and any(rc == 1 and nv > 0 for (_p, rc, nv) in res)
            rows.append((sid, "caught" if ok else "MISSED", res))
            bad += 0 if ok else 1
            print(sid, "caught" if ok else "MISSED", res, flush=True)
    for f in sorted(glob.glob(os.path.join(VERIF, "seeded", "noop", "*.diff"))):
        name = os.path.basename(f)[:-5]
        if a.only and name not in a.only:
            continue
        res = with_patch(f, lambda tmp: [(p,) + run_check(p, tmp) for p in NOOP_CHECKS.get(name, ["C03"])])
        ok = res is not None and all(rc == 0 for (_p, rc, _nv) in res)
        rows.append((name, "silent" if ok else "FALSE ALARM", res))
        bad += 0 if ok else 1
        print(name, "silent" if ok else "FALSE ALARM", res, flush=True)
    os.makedirs(os.path.join(VERIF, ".scratch"), exist_ok=True)
    json.dump(rows, open(os.path.join(VERIF, ".scratch", "selftest.json"), "w"), indent=1)
    print(f"selftest: {len(rows)} cases, {bad} failures")
    return 1 if bad else 0


if __name__ == "__main__":
    sys.exit(main())
