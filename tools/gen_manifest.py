#!/venv/bin/python
"""Generates /verif/MANIFEST.json from the table below (single source of truth)."""
import json
import os

HERE = os.path.dirname(os.path.dirname(os.path.abspath(__file__)))

TRUST = ("TLC 1.8 and the CommunityModules; the TLA+ value parser; the adapter (gamma/alpha: exact Fraction comparison of public "
         "attributes); bounded exploration (small-scope hypothesis, widened by the embedding fan-out)")

CLAIMS = {
    "C01": dict(spec="Hist1D", design="5/C01",
                text="TLC checks BinContents/SquaredErrors/Accounting/GapCountsNowhere/LastBinRightClosed on every reachable "
                     "state of Hist1D; every Construct/NewEmpty transition of the state graph is replayed through physt.h1 / "
                     "Histogram1D under 7 (quick) to 11 position x weight embeddings x argument spellings and compared exactly",
                technique="TLA+ spec Hist1D + TLC invariants; TLC state graph replayed into physt (lockstep conformance)"),
    "C03": dict(spec="Hist1D", design="5/C03",
                text="TLC checks EntryPathIrrelevant (state is a function of the bag of entries), NoKeepNoChange, FindBinPure over all "
                     "bounded histories; every transition (Fill/FillN/FindBin after NewEmpty/Construct) is executed on the real "
                     "object reached by the same history and the full C03 view compared after each call",
                technique="TLA+ spec Hist1D + TLC invariants/action property; path-mode replay of the TLC state graph into physt"),
    "C05": dict(spec="HistPool", design="5/C05",
                text="TLC checks SumIsUnion (a sum is the histogram of the union of the data, via ghost bags), Commutative, Associative, "
                     "Independence and RefusalIsNoOp on a pool of 3 histograms; every transition (New, Copy, +, +=, refused "
                     "additions, foreign operands) is replayed and the snapshot of all live objects compared",
                technique="TLA+ spec HistPool + TLC invariants; path-mode replay of the state graph into real histogram objects"),
    "C06": dict(spec="HistPool", design="5/C06",
                text="TLC checks MulDivIdentity, NormalTotal, MomentsScaleInvariant over exact rationals (numerator/denominator); "
                     "chains of *, /, in-place variants, normalize and refused operands are replayed; bit-exact comparison while "
                     "the history is dyadic, 64-ulp tolerance after a non-dyadic division",
                technique="TLA+ spec HistPool (exact rational arithmetic) + TLC invariants; lockstep replay"),
    "C12": dict(spec="HistPool", design="5/C12",
                text="the pool's records are independent values (Independence is an action property TLC checks); the replay compares "
                     "the snapshot of ALL live real objects after every derive/mutate step, so leakage through shared internals "
                     "appears as a mismatch on the untouched object",
                technique="TLA+ spec HistPool + TLC action property; all-objects snapshot comparison during replay"),
    "C13": dict(spec="HistPool", design="5/C13",
                text="dtype is a state component with numpy's promotion table transcribed (and verified against numpy at start-up); "
                     "histories over 7 dtypes x 10 operation kinds replayed, reported dtype and both array dtypes and all values "
                     "compared after each call; refused conversions must raise and change nothing",
                technique="TLA+ spec HistPool (dtype lattice) + TLC; lockstep replay with dtype/value view"),
    "C14": dict(spec="Hist1D+HistPool", design="5/C14",
                text="TLC checks RawStatistics on Hist1D (moments of the ghost bag) and SumIsUnion/MomentsScaleInvariant on HistPool; "
                     "replay compares weight/sum/sum2/min/max exactly on affine dyadic embeddings, median by the never-a-wrong-number rule",
                technique="TLA+ specs Hist1D, HistPool + TLC invariants; lockstep replay with the statistics view"),
    "C18": dict(spec="HistPool", design="5/C18",
                text="every refusal disjunct is an action with UNCHANGED state (RefusalIsNoOp checked by TLC) interleaved by TLC at every "
                     "position of bounded histories; the replay requires an exception and an unchanged snapshot; WellFormed on all states",
                technique="TLA+ spec HistPool refusal actions + TLC; fault-injecting replay (exception + unchanged snapshot)"),
    "C02": dict(spec="HistND", design="5/C02",
                text="TLC checks CellContents, MissedAccounting, ShapesMatch on every reachable state of HistND (asymmetric axes, gapped "
                     "axis, per-axis right-edge rule, NaN rows, weights); every Construct/NewEmpty transition is replayed through "
                     "physt.h / h2 (row-wise, column-wise, list input, binning objects or edge arrays) under 5-8 embeddings",
                technique="TLA+ spec HistND + TLC invariants; TLC state graph replayed into physt.h/h2/h3"),
    "C09": dict(spec="HistND", design="5/C09",
                text="TLC checks ProjectionLaws (totals, stepwise = direct, T.T = id) and ProjectionEqualsDirect (marginal = histogram of the "
                     "kept columns, via ghost rows); every projection of parents with distinct cell contents (2D..4D), by index and by "
                     "name, chains, T, accumulate and refused axis lists are replayed and compared",
                technique="TLA+ spec HistND + TLC invariants; lockstep replay of derivations"),
    "C10": dict(spec="HistPool+HistND", design="5/C10",
                text="TLC checks MergeLaws (runs of `amount`, edges, sums, totals, missed) on both specs; merges (amounts 1..7, every "
                     "axis / all axes, inplace or copy, chains), min_frequency as a nondeterministic coarsening the code must refine, "
                     "and refused merges are replayed",
                technique="TLA+ specs HistPool, HistND + TLC invariants; refinement replay (code result must be one of the spec successors)"),
    "C11": dict(spec="HistPool+HistND", design="5/C11",
                text="Python slice/index normalisation transcribed in TLA+; TLC checks SliceLaws (conservation of total+under+over, indexed "
                     "values) and enumerates every slice, int, mask, index array (1D) and int/slice tuple (ND) for small shapes; all replayed",
                technique="TLA+ specs HistPool (Slice/GetBin/Take), HistND (GetItem) + TLC; exhaustive replay of index expressions"),
    "C04": dict(spec="PhystAdaptive", design="5/C04",
                text="TLC checks NothingMissed, TightSpan, EqualsFixed, ContentsStayPut in index space (1-2 axes, empty or pre-filled); every "
                     "history is replayed for 4-8 (width, shift) grids with values on the left edge / mid-bin / one ulp below the right edge of "
                     "float-grid bin k; in the other direction random float programs (decimal literals such as 1.7 with width 0.1, edge "
                     "neighbours, far values, data-derived fixed_width/pretty/integer binnings) are recorded and validated by TLC (TraceAdaptive); "
                     "the axis algebra of growth and union is proved for all integers by TLAPS (PhystAdaptiveProof, checked by tlapm in every run)",
                technique="TLA+ spec PhystAdaptive + TLC; lockstep replay AND trace validation of recorded executions (ndjson -> TLC)"),
    "C19": dict(spec="PhystConfig", design="5/C19",
                text="TLC explores all interleavings of 3 executions (threads or asyncio tasks) over Enter/Exit/Raise(k)/SetDirect/Spawn/Arith/"
                     "Finish with invariants Isolation, Restored, NoCrossTalk; an edge cover of the state graph plus random behaviours is "
                     "executed in the real runtime (baton-stepped threads, queue-stepped tasks, real nested with-blocks and exceptions), "
                     "every running execution observing the switch after every step, for PHYST_FREE_ARITHMETICS unset/0/1; the four properties "
                     "are also proved by TLAPS for any number of executions, nesting depth and history length (PhystConfigProof, checked by tlapm "
                     "in every run)",
                technique="TLA+ interleaving model PhystConfig + TLC; behaviours of the state graph executed deterministically on real threads/tasks"),
    "C07": dict(spec="PhystBinnings", design="5/C07",
                text="TLC checks RepresentationsAgree on every bin array (<= 3 bins over 5 edges, consecutive and gapped) and the rule laws "
                     "(numpy edges as exact rationals, pretty width by cross-multiplied log-distance, quantile interpolation, integer-log "
                     "exponential edges, least-k bin counts); every Make/Copy/Slice/==/as_static/as_fixed_width transition and every rule "
                     "instance is replayed against physt.binnings under 5-8 embeddings; numpy rule cross-checked with numpy.histogram_bin_edges",
                technique="TLA+ spec PhystBinnings (exact rational rule definitions) + TLC; one implementation test per transition of the state graph"),
    "C08": dict(spec="PhystIO", design="5/C08",
                text="the document schema is modelled (Write emits exactly the writer's fields, Read consumes them); TLC checks RoundTrip and "
                     "Idempotent; 17 subjects (all classes, binning types, dtypes, NaN/non-zero missed, keep off, metadata) are driven through "
                     "to_json/parse_json, save/load via a file and a second serialisation; documents, bit patterns of all arrays, counters, "
                     "flags and metadata compared; 18 declared versions against the version rule",
                technique="TLA+ spec PhystIO (document schema) + TLC; replay of Pick/ToJson/Parse/ToJson2/SaveLoad/VersionCheck transitions"),
    "C15": dict(spec="PhystSpecial", design="5/C15",
                text="the true bin of an integer point is defined by exact integer predicates (squared radii vs squared edges, signs, |x| vs |y|, "
                     "z^2 vs rho^2); TLC checks SectorSymmetry and ProjectionIsMarginal; every entry path (facade, fill, fill_n, find_bin, each "
                     "raw or pre-transformed) of the eight classes is replayed for points in all octants, on axes, diagonals, the cone, the "
                     "origin, radial edges, with signed zeros and scalings; projections compared by class and marginal contents",
                technique="TLA+ spec PhystSpecial (integer geometry) + TLC; lockstep replay of all entry paths"),
    "C16": dict(spec="PhystGeom", design="5/C16",
                text="bin measures are exact rationals times pi computed by TLC per class (tables carried on the transition labels); TLC checks "
                     "TotalMeasure (pi R^2, 4 pi, 4/3 pi R^3), AdditiveUnderMerge, CumulativeEndsAtTotal; bin_sizes, densities*bin_sizes = "
                     "frequencies, widths/centres/edges (per-axis and mesh forms), total_width, cumulative frequencies compared on real objects",
                technique="TLA+ spec PhystGeom (exact rational measures) + TLC invariants; per-class tables replayed against the implementation"),
    "C17": dict(spec="PhystContainers+HistND+PhystIO", design="5/C17",
                text="the Construct action's successor does not depend on container or chunking (ChunkingIrrelevant checked by TLC over all "
                     "chunkings); each construction is replayed through 11 containers in 1D (incl. dask in every chunking) and 5 in ND and "
                     "compared with the specification's state; xarray / pandas / Geant4 conversions of the PhystIO subjects round-tripped",
                technique="TLA+ spec PhystContainers (+HistND, PhystIO) + TLC; container/chunking fan-out replay against the spec state"),
    "C20": dict(spec="PhystPlot", design="5/C20",
                text="expected marks (bars, points, steps, 2D cells, squared error bars, tick positions) are computed by TLC in exact rationals "
                     "and carried on the transition labels; PlotIsPure is an action property; each Plot transition is executed on the "
                     "matplotlib (Agg) / plotly / ascii backend and the extracted marks, labels and the histogram snapshot are compared; "
                     "wrong dimension / kind / backend must be refused; rendering to pixels is trusted to the backend",
                technique="TLA+ spec PhystPlot (exact mark tables) + TLC; mark-level conformance replay",
                note="TLC and the adapters' mark extraction from matplotlib artists / plotly traces / stdout; pixel rendering is outside the claim"),
}

PENDING = {}

TITLES = {}
for line in open(os.path.join(HERE, "properties.jsonl")):
    p = json.loads(line)
    TITLES[p["id"]] = p["title"]


def main():
    checks = []
    for pid in sorted(CLAIMS):
        c = CLAIMS[pid]
        checks.append({
            "property_id": pid,
            "quick_cmd": f"./check {pid} --tier quick",
            "thorough_cmd": f"./check {pid} --tier thorough",
            "evidence_file": f"evidence/{pid}.json",
            "replay_cmd_template": f"./check {pid} --replay {{path}}",
            "engine": c["spec"],
            "level_claimed": {"category": c.get("level", "model_checking"), "text": c["text"], "design_ref": "DESIGN.md " + c["design"]},
            "level_note": c.get("note", TRUST),
            "technique": c["technique"],
        })
    na = []
    for pid in sorted(TITLES):
        if pid not in CLAIMS:
            na.append({"property_id": pid, "reason": PENDING.get(pid, "specification and conformance harness for this property not built yet "
                                                                  "(the technique applies; see DESIGN.md section 5)")})
    doc = {
        "version": 1,
        "setup_cmd": "./setup.sh",
        "hooks": {
            "guard": "PHYST_VERIF_TRACE",
            "enable": "no in-source hooks: the library is sequential and the adapters read public attributes; physt is imported "
                      "editable from /repo's working tree, so checks always run the current sources",
            "baseline_off_cmd": "cd /repo && /venv/bin/python -m pytest -ra -q -p no:cacheprovider --timeout=900 --continue-on-collection-errors",
            "source_commits": [],
            "add_only": True,
        },
        "engines": [
            {"name": "M", "path": "lib/tlc.py", "serves_properties": sorted(CLAIMS), "kind_free_text": "TLC model checking of spec/*.tla (invariants, action properties)"},
            {"name": "R", "path": "lib/replay.py", "serves_properties": sorted(CLAIMS), "kind_free_text": "lockstep replay of TLC's labelled state graph / simulated behaviours into real physt objects"},
            {"name": "T", "path": "props/trace_c04.py", "serves_properties": ["C01", "C02", "C03", "C04", "C07"],
             "kind_free_text": "trace validation: executions recorded from physt on raw floats, abstracted (grid index / rank) and checked by TLC against TraceAdaptive / TraceHist1D / TraceHistND"},
            {"name": "P", "path": "lib/tlaps.py", "serves_properties": ["C04", "C19"],
             "kind_free_text": "TLAPS (tlapm) proofs of the unbounded design: PhystConfigProof, PhystAdaptiveProof"},
        ],
        "checks": checks,
        "not_applicable": na,
        "notes": "Exit codes: 0 held (KNOWN-FINDING lines for defects listed in known_findings.json), 1 + VIOLATION line, 2 machinery failure.",
    }
    with open(os.path.join(HERE, "MANIFEST.json"), "w") as f:
        json.dump(doc, f, indent=1)


if __name__ == "__main__":
    main()
