#!/bin/bash
# tools/seed_eval.sh <seed dir under /tmp/seed> <seed id> <property> [more properties...]
# Confirms a seeded change (suite passes with it, demo fails with / passes without it), runs the named checks against it
# and stores patch, demo and meta.json under /verif/seeded/<seed id>/.
set -u
WT=$1; SID=$2; shift 2
OUT=/verif/seeded/$SID
MUT=/tmp/mut_$SID
mkdir -p $OUT
rm -rf $MUT; mkdir -p $MUT; cp -r /repo/src $MUT/src
cp $WT/patch.diff $OUT/patch.diff; cp $WT/demo.py $OUT/demo.py; cp $WT/NOTES.md $OUT/NOTES.md 2>/dev/null
( cd $MUT && patch -p1 -s < $OUT/patch.diff ) || { echo "PATCH FAILED"; exit 2; }
( cd /tmp && PYTHONPATH=$MUT/src /venv/bin/python $OUT/demo.py > $OUT/demo_with.log 2>&1 ); DW=$?
( cd /tmp && PYTHONPATH=/repo/src /venv/bin/python $OUT/demo.py > $OUT/demo_without.log 2>&1 ); DO=$?
# the existing suite against the changed sources (tests from /repo, sources from the scratch copy)
cp -r /repo/tests $MUT/tests; cp /repo/pyproject.toml $MUT/ 2>/dev/null
SUITE=$(cd $MUT && PYTHONPATH=$MUT/src /venv/bin/python -m pytest -q -p no:cacheprovider --timeout=900 tests 2>&1 | grep -E "passed|failed" | tail -1)
IMP=$(cd /tmp && PYTHONPATH=$MUT/src /venv/bin/python -c "import physt,sys; print(physt.__file__)")
RES=""
for P in "$@"; do
  ( cd ${VROOT:-/verif} && timeout 3000 ./check $P --repo $MUT > $OUT/check_$P.log 2>&1 ); RC=$?
  NV=$(grep -c "^VIOLATION" $OUT/check_$P.log)
  RES="$RES $P:rc=$RC:violations=$NV"
  # keep evidence of the unchanged tree intact: re-run is done by the caller if needed
done
echo "$SID demo_with=$DW demo_without=$DO suite='$SUITE' import=$IMP checks=[$RES]"
/venv/bin/python - <<PY
import json
json.dump({"seed": "$SID", "breaks_property": "$1", "demo_exit_with_change": $DW, "demo_exit_without_change": $DO,
           "suite_with_change": "$SUITE", "checks_run": "$RES".split(), "notes": open("$OUT/NOTES.md").read() if __import__("os").path.exists("$OUT/NOTES.md") else ""},
          open("$OUT/meta.json", "w"), indent=1)
PY
rm -rf $MUT
