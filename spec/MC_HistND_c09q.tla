---------------------------- MODULE MC_HistND_c09q ----------------------------
EXTENDS HistND
A0  == << <<2, 6>> >>
A1  == << <<2, 4>>, <<4, 6>> >>
A2  == << <<2, 4>>, <<4, 8>>, <<8, 10>> >>
A1b == << <<0, 2>>, <<2, 8>> >>
MCAxisLayouts == { <<A1, A2>>, <<A0, A1, A2>>, <<A1, A0, A1b, A2>> }
MCRIncl == { <<TRUE, TRUE>>, <<TRUE, FALSE, TRUE>>, <<TRUE, TRUE, FALSE, TRUE>> }
MCRows == { <<3, 3>>, <<5, 9>>, <<7, 3>>, <<3, 11>>, <<3, 3, 3>>, <<3, 5, 9>>, <<9, 5, 9>> }
MCWeights == {1}
UE == {<<r, 1>> : r \in MCRows}
MCUBatches == {<<e1, e2>> : e1 \in UE, e2 \in UE}
MCWBatches == {<< <<<<3, 3>>, 2>>, <<<<5, 9>>, 3>> >>, << <<<<3, 3, 3>>, 2>>, <<<<3, 5, 9>>, 3>>, <<<<3, 7, 9>>, 1>> >>}
MCOps == {"FromArrays", "FromArraysM", "Construct", "Project", "ProjectAgain", "ProjectRefused", "Transpose", "Accumulate", "DropD"}
MCScaleArgs == {<<2, 1>>}
MCCellArgs == {}
MCRetCands == {NoneRet}
Seqs(S, n) == {q \in [1..n -> S] : \A i, j \in 1..n : i # j => q[i] # q[j]}
MCProjAxes == Seqs(1..4, 1) \cup Seqs(1..4, 2) \cup Seqs(1..4, 3) \cup {<<>>, <<1, 1>>, <<5>>, <<2, 1, 2>>}
MCMergeArgs == {<<2, 1>>}
MCIndexArgs == {<< <<"i", 0>> >>}
=============================================================================
