---------------------------- MODULE MC_Adaptive_sliceq ----------------------------
(* selections of an adaptive 1-D histogram taken before and after it has grown *)
EXTENDS PhystAdaptive
MCIndices == {-2, 0, 1, 4}
C1(k) == <<k>>
MCPrefills == { << <<C1(0), "M", 1>>, <<C1(1), "M", 2>>, <<C1(2), "M", 1>> >>, << <<C1(1), "M", 1>> >> }
MCBatches == { << <<C1(-1), "M", 1>>, <<C1(3), "M", 1>> >> }
=============================================================================
