---------------------------- MODULE MC_HistPool_c12q ----------------------------
EXTENDS HistPool
LA == << <<2, 4>>, <<4, 6>>, <<6, 8>>, <<8, 10>> >>
L1 == << <<2, 10>> >>
MCSeeds == {
  \* a single bin: nothing to merge, nothing to slice away - derived objects must still be objects of their own
  [L |-> L1, keep |-> TRUE,  batch |-> << <<3, 1>>, <<11, 1>> >>, weighted |-> FALSE, dtype |-> "i8", den |-> 1, name |-> 1],
  [L |-> LA, keep |-> TRUE,  batch |-> << <<3, 1>>, <<5, 1>>, <<5, 1>>, <<9, 1>>, <<11, 1>> >>, weighted |-> FALSE, dtype |-> "i8", den |-> 1, name |-> 1],
  [L |-> LA, keep |-> TRUE,  batch |-> << <<1, 1>>, <<4, 2>>, <<7, 1>> >>, weighted |-> TRUE,  dtype |-> "f8", den |-> 2, name |-> 2]
}
MCIds == 1..2
MCOps == {"New", "Copy", "CopyEmpty", "Add", "Sub", "Mul", "Div", "Normalize", "Merge", "Slice",
          "Fill", "IAdd", "IMul", "IDiv", "SetDtype", "SetName"}
MCSliceArgs == {<<1, NoneIx>>, <<NoneIx, -1>>, <<1, 3>>}
MCTakeArgs == {<<0>>}
MCScalars == {<<2, 1, "pyint">>}
=============================================================================
