SPECIFICATION Spec
CONSTANTS
  Ids <- MCIds
  Seeds <- MCSeeds
  Ops <- MCOps
  Scalars <- MCScalars
  FillPos = {3, 11}
  FillW = {1}
  SetDtypes = {"f8"}
  SliceArgs <- MCSliceArgs
  MergeArgs = {2}
  TakeArgs <- MCTakeArgs
  EdgeVals = {0}
  MinFreqs = {2}
  MaxDepth = 4
  MaxVal = 200
CHECK_DEADLOCK FALSE
INVARIANT SumIsUnion
INVARIANT SharesSumToOne
INVARIANT WellFormed
PROPERTY Independence
