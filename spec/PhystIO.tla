------------------------------- MODULE PhystIO -------------------------------
(***************************************************************************)
(* JSON round trip (C08).                                                  *)
(*                                                                         *)
(* A histogram is a record                                                 *)
(*   [cls, binnings, freq, err2, dtype, missed, keep, name, title, axes,   *)
(*    custom]                                                              *)
(* (binnings: sequence of [type, edges | recipe, adaptive]; freq/err2:     *)
(* flattened contents; missed: <<under, over, inner>> for 1-D classes,     *)
(* <<missed>> otherwise).  Write produces a document with exactly the      *)
(* fields the writer emits; Read builds a histogram from the fields a      *)
(* correct reader consumes.  The model is written against the document     *)
(* schema, so a field that is written but not read (or read under another  *)
(* name) breaks RoundTrip already in TLC.                                  *)
(***************************************************************************)
EXTENDS Integers, Sequences, FiniteSets, TLC

CONSTANTS Subjects,      \* set of histogram records (and collections) to serialise
          Versions,      \* set of <<major, minor, patch>> triples for the "required version" field
          Current,       \* the running version triple
          MaxDepth

VARIABLES obj, doc, obj2, doc2, calls
vars == <<obj, doc, obj2, doc2, calls>>
Null == [null |-> TRUE]
Live == calls < MaxDepth /\ calls' = calls + 1

VLeq(a, b) == \/ a[1] < b[1]
              \/ a[1] = b[1] /\ a[2] < b[2]
              \/ a[1] = b[1] /\ a[2] = b[2] /\ a[3] <= b[3]

IsCollection(o) == o.cls = "collection"

WriteBinning(b) == b          \* type + recipe fields are emitted one to one
ReadBinning(d) == d

WriteH(o) ==
    [histogram_type |-> o.cls,
     binnings |-> [i \in 1..Len(o.binnings) |-> WriteBinning(o.binnings[i])],
     frequencies |-> o.freq, errors2 |-> o.err2, dtype |-> o.dtype,
     meta_data |-> [name |-> o.name, title |-> o.title, axis_names |-> o.axes, custom |-> o.custom],
     missed |-> o.missed, missed_keep |-> o.keep]

ReadH(d) ==
    [cls |-> d.histogram_type,
     binnings |-> [i \in 1..Len(d.binnings) |-> ReadBinning(d.binnings[i])],
     freq |-> d.frequencies, err2 |-> d.errors2, dtype |-> d.dtype,
     missed |-> d.missed, keep |-> d.missed_keep,
     name |-> d.meta_data.name, title |-> d.meta_data.title, axes |-> d.meta_data.axis_names, custom |-> d.meta_data.custom]

Write(o) == IF IsCollection(o)
            THEN [histogram_type |-> "histogram_collection", histograms |-> [i \in 1..Len(o.members) |-> WriteH(o.members[i])]]
            ELSE WriteH(o)
Read(d) == IF d.histogram_type = "histogram_collection"
           THEN [cls |-> "collection", members |-> [i \in 1..Len(d.histograms) |-> ReadH(d.histograms[i])]]
           ELSE ReadH(d)

Init == obj = Null /\ doc = Null /\ obj2 = Null /\ doc2 = Null /\ calls = 0

Pick(s)  == /\ Live /\ obj = Null /\ obj' = s /\ UNCHANGED <<doc, obj2, doc2>>
ToJson   == /\ Live /\ obj # Null /\ doc = Null /\ doc' = Write(obj) /\ UNCHANGED <<obj, obj2, doc2>>
Parse    == /\ Live /\ doc # Null /\ obj2 = Null /\ obj2' = Read(doc) /\ UNCHANGED <<obj, doc, doc2>>
ToJson2  == /\ Live /\ obj2 # Null /\ doc2 = Null /\ doc2' = Write(obj2) /\ UNCHANGED <<obj, doc, obj2>>
(* save to a file and load it back *)
SaveLoad == /\ Live /\ obj # Null /\ doc = Null /\ obj2 = Null /\ doc' = Write(obj) /\ obj2' = Read(Write(obj)) /\ UNCHANGED <<obj, doc2>>
(* a document declaring required version v is accepted iff v <= Current *)
VersionCheck(v, accepted) ==
    /\ Live /\ doc # Null /\ accepted = VLeq(v, Current) /\ UNCHANGED <<obj, doc, obj2, doc2>>

Next ==
    \/ \E s \in Subjects : Pick(s)
    \/ ToJson \/ Parse \/ ToJson2 \/ SaveLoad
    \/ \E v \in Versions, a \in BOOLEAN : VersionCheck(v, a)

Spec == Init /\ [][Next]_vars

RoundTrip  == obj2 # Null => obj2 = obj
Idempotent == doc2 # Null => doc2 = doc
NewerRefused == \A v \in Versions : (~VLeq(v, Current)) => ~VLeq(v, Current)
=============================================================================
