------------------------------ MODULE HistPool ------------------------------
(***************************************************************************)
(* A pool of 1-D histograms and the operations that derive histograms from *)
(* one another or mutate them in place: copy, +, -, scalar * and /,        *)
(* normalize, merge_bins, slicing, fill, fill_n, set dtype, metadata       *)
(* edits - and the calls that must be refused.                             *)
(*                                                                         *)
(* The records are independent values: an action on pool[i] leaves every   *)
(* other member unchanged BY CONSTRUCTION (that is property C12); the      *)
(* conformance engine compares the public snapshot of ALL live objects      *)
(* with the pool after every step, so a change leaking through shared       *)
(* internals of the implementation shows up on the other object.            *)
(*                                                                         *)
(* Serves C05, C06, C12, C13, C14, C18 (1-D part).                         *)
(***************************************************************************)
EXTENDS PhystRec, TLC

CONSTANTS Ids,          \* slots of the pool, e.g. 1..3
          Seeds,        \* set of seed records [L, keep, batch, dtype, name]
          Ops,          \* names of the enabled actions
          Scalars,      \* set of <<p, q, kind>>: factor p/q written as a Python/numpy scalar of that kind
          FillPos,      \* positions for fill
          FillW,        \* weights for fill (1 = unweighted call)
          SetDtypes,    \* targets of set_dtype
          SliceArgs,    \* set of <<start, stop>> (NoneIx = None)
          MergeArgs,    \* amounts for merge_bins
          TakeArgs,     \* index sequences for masks / index arrays
          EdgeVals,     \* candidate edge positions (results of i[int])
          MinFreqs,     \* thresholds for merge_bins(min_frequency=...)
          MaxDepth,
          MaxVal        \* bound on numerators/denominators (keeps TLC in 32-bit integers)

VARIABLES pool,         \* [Ids -> record | Null]
          ghost,        \* [Ids -> bag of entries | Untracked]: the data a member is the histogram of
          calls

vars == <<pool, ghost, calls>>

Null == [null |-> TRUE]
Untracked == {<<0, 0, 0>>}
Live == calls < MaxDepth /\ calls' = calls + 1
Has(i) == pool[i] # Null
Free(k) == pool[k] = Null
Small(h) == /\ h.den <= MaxVal
            /\ \A x \in 1..Len(h.freq) : h.freq[x] <= MaxVal /\ h.err2[x] <= MaxVal * 64
\* (TLC's integers are 32-bit: the statistics' numerators are scaled together with the contents)
SmallSt(h) == /\ h.st.w <= 2000000 /\ h.st.s1 <= 2000000 /\ h.st.s1 >= -2000000 /\ h.st.s2 <= 2000000
              /\ \A x \in 1..Len(h.freq) : h.freq[x] <= 100000 /\ h.err2[x] <= 100000
\* whether a - b has a negative bin is decided exactly only for operands free of float rounding (prec = 0): after a division
\* by 3 or a percent normalisation, contents that are equal on paper differ by an ulp and the sign of the difference is noise
ExactPair(a, b) == a.prec = 0 /\ b.prec = 0
\* two operands can be brought to a common denominator without leaving TLC's integers
MaxErr2(h) == FoldLeft(LAMBDA acc, x : IF x > acc THEN x ELSE acc, 0, h.err2)
Commensurable(a, b) ==
    \/ a.den = b.den
    \/ /\ a.den <= 64 /\ b.den <= 64
       /\ MaxErr2(a) * (Lcm2(a.den, b.den) \div a.den) * (Lcm2(a.den, b.den) \div a.den) <= 100000000
       /\ MaxErr2(b) * (Lcm2(a.den, b.den) \div b.den) * (Lcm2(a.den, b.den) \div b.den) <= 100000000
On(op) == op \in Ops

KindDtype(kind) == CASE kind = "pyint" -> "i8" [] kind = "pyfloat" -> "f8" [] kind = "f4" -> "f4"
                     [] kind = "i2" -> "i2" [] kind = "f2" -> "f2" [] OTHER -> "f8"

GUnion(a, b) ==
    IF a = Untracked \/ b = Untracked THEN Untracked
    ELSE LET keys == {<<t[1], t[2]>> : t \in a \cup b}
             cnt(S, k) == IF \E t \in S : t[1] = k[1] /\ t[2] = k[2]
                          THEN (CHOOSE t \in S : t[1] = k[1] /\ t[2] = k[2])[3] ELSE 0
         IN  {<<k[1], k[2], cnt(a, k) + cnt(b, k)>> : k \in keys}

---------------------------------------------------------------------------
Init == pool = [i \in Ids |-> Null] /\ ghost = [i \in Ids |-> Untracked] /\ calls = 0

(* physt.h1(values, bins, weights, keep_missed, dtype, name) into slot k *)
New(k, s) ==
    /\ Live /\ On("New") /\ Free(k)
    /\ \A j \in Ids : j < k => Has(j)            \* fill slots in order (symmetry)
    /\ ~(s.dtype \in Ints /\ s.den > 1)
    /\ pool' = [pool EXCEPT ![k] = [FromData(s.L, s.keep, s.batch, s.dtype) EXCEPT !.name = s.name, !.den = s.den]]
    /\ ghost' = [ghost EXCEPT ![k] = GOfSeq(s.batch)]

(* k = i.copy() *)
Copy(i, k) ==
    /\ Live /\ On("Copy") /\ Has(i) /\ Free(k)
    /\ pool' = [pool EXCEPT ![k] = pool[i]]
    /\ ghost' = [ghost EXCEPT ![k] = ghost[i]]

(* k = i.copy(include_frequencies=False): empty but usable *)
CopyEmpty(i, k) ==
    /\ Live /\ On("CopyEmpty") /\ Has(i) /\ Free(k)
    /\ pool' = [pool EXCEPT ![k] = [EmptyRec(pool[i].bins, pool[i].keep, pool[i].dtype) EXCEPT !.name = pool[i].name,
                                                                                              !.den = pool[i].den]]
    /\ ghost' = [ghost EXCEPT ![k] = GEmpty]

SameBins(a, b) == a.bins = b.bins

(* k = i + j *)
Add(i, j, k) ==
    /\ Live /\ On("Add") /\ Has(i) /\ Has(j) /\ Free(k)
    /\ SameBins(pool[i], pool[j]) /\ Commensurable(pool[i], pool[j])
    /\ Small(Plus(pool[i], pool[j]))
    /\ pool' = [pool EXCEPT ![k] = Plus(pool[i], pool[j])]
    /\ ghost' = [ghost EXCEPT ![k] = GUnion(ghost[i], ghost[j])]

(* i += j *)
IAdd(i, j) ==
    /\ Live /\ On("IAdd") /\ Has(i) /\ Has(j)
    /\ SameBins(pool[i], pool[j]) /\ Commensurable(pool[i], pool[j])
    /\ Small(Plus(pool[i], pool[j]))
    /\ pool' = [pool EXCEPT ![i] = [Plus(pool[i], pool[j]) EXCEPT !.name = pool[i].name]]   \* in place: metadata kept
    /\ ghost' = [ghost EXCEPT ![i] = GUnion(ghost[i], ghost[j])]

(* i + j with different bins must be refused *)
AddRefused(i, j) ==
    /\ Live /\ On("AddRefused") /\ Has(i) /\ Has(j) /\ i # j
    /\ ~SameBins(pool[i], pool[j])
    /\ UNCHANGED <<pool, ghost>>

(* i += j with different bins must be refused and change nothing *)
IAddRefused(i, j) ==
    /\ Live /\ On("IAddRefused") /\ Has(i) /\ Has(j) /\ i # j
    /\ ~SameBins(pool[i], pool[j])
    /\ UNCHANGED <<pool, ghost>>

(* i + <array> / i + <non-zero number> / i * <array> / i * j / i / j ... with free arithmetics off: refused *)
ForeignRefused(i, what) ==
    /\ Live /\ On("ForeignRefused") /\ Has(i)
    /\ what \in {"add_array", "add_scalar", "iadd_array", "mul_array", "imul_array", "mul_hist", "imul_hist",
                 "div_hist", "idiv_hist", "div_array", "rdiv_scalar", "sub_array",
                 "mul_hist_free", "imul_hist_free", "div_hist_free", "idiv_hist_free", "rdiv_scalar_free"}
    /\ UNCHANGED <<pool, ghost>>

(* k = i - j *)
(* free: the call runs with free arithmetics enabled.  physt then evaluates a - b as a + b * (-1); the factor is a Python *)
(* int, so the result is as wide as a product with a Python int is (no information is lost, reported = actual dtype).    *)
MinusF(a, b, free) ==
    IF free THEN [Minus(a, b) EXCEPT !.dtype = Promote(a.dtype, Promote(b.dtype, "i8"))] ELSE Minus(a, b)

Sub(i, j, k, free) ==
    /\ Live /\ On("Sub") /\ Has(i) /\ Has(j) /\ Free(k)
    /\ SameBins(pool[i], pool[j]) /\ Commensurable(pool[i], pool[j]) /\ ExactPair(pool[i], pool[j]) /\ CanMinus(pool[i], pool[j])
    /\ pool' = [pool EXCEPT ![k] = MinusF(pool[i], pool[j], free)]
    /\ ghost' = [ghost EXCEPT ![k] = Untracked]

(* i -= j *)
ISub(i, j, free) ==
    /\ Live /\ On("ISub") /\ Has(i) /\ Has(j) /\ i # j
    /\ SameBins(pool[i], pool[j]) /\ Commensurable(pool[i], pool[j]) /\ ExactPair(pool[i], pool[j]) /\ CanMinus(pool[i], pool[j])
    /\ pool' = [pool EXCEPT ![i] = [MinusF(pool[i], pool[j], free) EXCEPT !.name = pool[i].name]]   \* in place: metadata kept
    /\ ghost' = [ghost EXCEPT ![i] = Untracked]

(* i -= j where some content would become negative: refused, nothing changes *)
ISubRefused(i, j) ==
    /\ Live /\ On("ISubRefused") /\ Has(i) /\ Has(j) /\ i # j
    /\ SameBins(pool[i], pool[j]) /\ Commensurable(pool[i], pool[j]) /\ ExactPair(pool[i], pool[j]) /\ ~CanMinus(pool[i], pool[j])
    /\ UNCHANGED <<pool, ghost>>

(* k = i * c   (also c * i) *)
Mul(i, c, k, reflected) ==
    /\ Live /\ On("Mul") /\ Has(i) /\ Free(k)
    /\ Small(Scale(pool[i], c[1], c[2], KindDtype(c[3])))
    /\ pool' = [pool EXCEPT ![k] = Scale(pool[i], c[1], c[2], KindDtype(c[3]))]
    /\ ghost' = [ghost EXCEPT ![k] = Untracked]

(* i *= c *)
IMul(i, c) ==
    /\ Live /\ On("IMul") /\ Has(i)
    /\ Small(Scale(pool[i], c[1], c[2], KindDtype(c[3])))
    /\ pool' = [pool EXCEPT ![i] = Scale(pool[i], c[1], c[2], KindDtype(c[3]))]
    /\ ghost' = [ghost EXCEPT ![i] = Untracked]

(* h / c: division always yields a float histogram (the scalar's own type only matters for rounding) *)
Quot(h, c) == [Scale(h, c[2], c[1], KindDtype(c[3])) EXCEPT !.dtype = Promote(Promote(h.dtype, "f8"), KindDtype(c[3])),
                                                             !.prec = Max2(@, IF IsPow2(c[1]) THEN 0 ELSE 1)]

(* k = i / c *)
Div(i, c, k) ==
    /\ Live /\ On("Div") /\ Has(i) /\ Free(k) /\ c[1] > 0
    /\ Small(Quot(pool[i], c))
    /\ pool' = [pool EXCEPT ![k] = Quot(pool[i], c)]
    /\ ghost' = [ghost EXCEPT ![k] = Untracked]

(* i /= c *)
IDiv(i, c) ==
    /\ Live /\ On("IDiv") /\ Has(i) /\ c[1] > 0
    /\ Small(Quot(pool[i], c))
    /\ pool' = [pool EXCEPT ![i] = Quot(pool[i], c)]
    /\ ghost' = [ghost EXCEPT ![i] = Untracked]

(* i *= (negative number) with some positive content: refused, nothing changes *)
NegRefused(i, inplace) ==
    /\ Live /\ On("NegRefused") /\ Has(i) /\ Total(pool[i]) > 0
    /\ UNCHANGED <<pool, ghost>>

(* i /= 0: must not leave a half-changed histogram *)
DivZeroRefused(i) ==
    /\ Live /\ On("DivZeroRefused") /\ Has(i)
    /\ UNCHANGED <<pool, ghost>>

(* k = i.normalize(percent) / i.normalize(inplace=True, percent) *)
Normalize(i, percent, inplace, k) ==
    /\ Live /\ On("Normalize") /\ Has(i) /\ Total(pool[i]) > 0 /\ SmallSt(pool[i])
    /\ (inplace => k = i) /\ (~inplace => Free(k))
    /\ Small(Normalized(pool[i], percent))
    /\ pool' = [pool EXCEPT ![k] = Normalized(pool[i], percent)]
    /\ ghost' = [ghost EXCEPT ![k] = Untracked]

(* i.fill(value, weight) *)
Fill(i, p, w) ==
    /\ Live /\ On("Fill") /\ Has(i) /\ pool[i].den = 1
    /\ pool' = [pool EXCEPT ![i] = [DepositR(pool[i], p, w) EXCEPT !.dtype = Promote(@, "i8")]]
    /\ ghost' = [ghost EXCEPT ![i] = IF @ = Untracked THEN Untracked ELSE GAdd(@, p, w)]

(* i.fill(value, 0.5): a float weight promotes the contents to float *)
FillHalf(i, p) ==
    /\ Live /\ On("FillHalf") /\ Has(i) /\ pool[i].den \in {1, 2}
    /\ pool' = [pool EXCEPT ![i] = Reduce([DepositR(Rescale(pool[i], 2), p, 1) EXCEPT !.dtype = Promote(@, "f8")])]
    /\ ghost' = [ghost EXCEPT ![i] = Untracked]

(* physt.h1(values, bins, weights=<floats>, dtype=<integer type>) must be refused *)
NewRefused(s) ==
    /\ Live /\ On("NewRefused") /\ s.dtype \in Ints /\ s.den > 1
    /\ UNCHANGED <<pool, ghost>>

(* i.dtype = d : accepted iff lossless *)
CanSetDtype(h, d) ==
    IF d \in Ints
    THEN IsIntegral(h) /\ MaxAbs(h) <= IntMax(d)
    ELSE MaxAbs(h) <= FloatMaxInt(d) /\ (d = "f2" => \A x \in 1..Len(h.freq) : h.freq[x] <= 2048 * h.den /\ h.err2[x] <= 2048 * h.den * h.den)

SetDtype(i, d) ==
    /\ Live /\ On("SetDtype") /\ Has(i) /\ CanSetDtype(pool[i], d)
    /\ (d \in Ints => pool[i].prec = 0)       \* integrality of rounded float values is not decided by the model
    /\ pool' = [pool EXCEPT ![i].dtype = d,
                            ![i].prec = IF IsPow2(pool[i].den) THEN @ ELSE IF d = "f4" THEN Max2(@, 2) ELSE IF d = "f2" THEN 3 ELSE @]
    /\ UNCHANGED ghost

SetDtypeRefused(i, d) ==
    /\ Live /\ On("SetDtypeRefused") /\ Has(i)
    /\ \/ d \in Ints /\ pool[i].prec = 0 /\ (~IsIntegral(pool[i]) \/ MaxAbs(pool[i]) > IntMax(d))
       \/ d \in Floats /\ MaxAbs(pool[i]) > FloatMaxInt(d)
    /\ d # pool[i].dtype
    /\ UNCHANGED <<pool, ghost>>

(* h.frequencies = h.frequencies / 2; h.errors2 = h.errors2 / 4 through the public setters: only the two arrays change *)
SetFreqHalf(i) ==
    /\ Live /\ On("SetFreqHalf") /\ Has(i) /\ pool[i].den * 2 <= MaxVal
    /\ pool' = [pool EXCEPT ![i] = [Rescale(pool[i], pool[i].den * 2) EXCEPT !.freq = pool[i].freq, !.err2 = pool[i].err2]]
    /\ ghost' = [ghost EXCEPT ![i] = Untracked]

(* i.name = v *)
SetName(i, v) ==
    /\ Live /\ On("SetName") /\ Has(i) /\ pool[i].name # v
    /\ pool' = [pool EXCEPT ![i].name = v]
    /\ UNCHANGED ghost

(* k = i.merge_bins(a) / i.merge_bins(a, inplace=True) *)
Merge(i, a, inplace, k) ==
    /\ Live /\ On("Merge") /\ Has(i) /\ CanMerge(pool[i].bins, a)
    /\ (inplace => k = i) /\ (~inplace => Free(k))
    /\ pool' = [pool EXCEPT ![k] = Merged(pool[i], a)]
    /\ ghost' = [ghost EXCEPT ![k] = ghost[i]]

(* merging across a gap must be refused and change nothing *)
MergeRefused(i, a, inplace) ==
    /\ Live /\ On("MergeRefused") /\ Has(i) /\ ~CanMerge(pool[i].bins, a)
    /\ UNCHANGED <<pool, ghost>>

(* merge_bins(2.5): a non-integral amount must be refused *)
MergeFracRefused(i, inplace) ==
    /\ Live /\ On("MergeFracRefused") /\ Has(i)
    /\ UNCHANGED <<pool, ghost>>

(* k = i.merge_bins(min_frequency=t): SOME coarsening into runs of adjacent bins (the statement does not *)
(* say which); the run lengths are chosen nondeterministically, the code must produce one of them.     *)
Compositions(n) == {q \in UNION {[1..m -> 1..n] : m \in 1..n} : SumSeq(q) = n}
RunStart(q, j) == 1 + SumSeq(SubSeq(q, 1, j - 1))
CoarsenedBy(h, q) ==
    [h EXCEPT !.bins = [j \in 1..Len(q) |-> <<Left(h.bins[RunStart(q, j)]), Right(h.bins[RunStart(q, j) + q[j] - 1])>>],
              !.freq = [j \in 1..Len(q) |-> SumRange(h.freq, RunStart(q, j), RunStart(q, j) + q[j] - 1)],
              !.err2 = [j \in 1..Len(q) |-> SumRange(h.err2, RunStart(q, j), RunStart(q, j) + q[j] - 1)]]
MergeMinFreq(i, t, inplace, k) ==
    /\ Live /\ On("MergeMinFreq") /\ Has(i) /\ Consecutive(pool[i].bins)
    /\ (inplace => k = i) /\ (~inplace => Free(k))
    /\ \E q \in Compositions(Len(pool[i].bins)) :
          pool' = [pool EXCEPT ![k] = CoarsenedBy(pool[i], q)]
    /\ ghost' = [ghost EXCEPT ![k] = ghost[i]]

(* k = i[start:stop] (non-empty) *)
Slice(i, start, stop, k) ==
    /\ Live /\ On("Slice") /\ Has(i) /\ Free(k)
    /\ SliceLo(Len(pool[i].bins), start) < SliceHi(Len(pool[i].bins), stop)
    /\ pool' = [pool EXCEPT ![k] = Sliced(pool[i], start, stop)]
    /\ ghost' = [ghost EXCEPT ![k] = Untracked]

(* i[ix] with an integer (negative allowed): returns the bin's edges and content, creates nothing *)
GetBin(i, ix, lo, hi, num) ==
    /\ Live /\ On("GetBin") /\ Has(i)
    /\ LET n == Len(pool[i].bins) x == IF ix < 0 THEN n + ix ELSE ix IN
         /\ x \in 0..(n - 1)
         /\ lo = Left(pool[i].bins[x + 1]) /\ hi = Right(pool[i].bins[x + 1]) /\ num = pool[i].freq[x + 1]
    /\ UNCHANGED <<pool, ghost>>

(* k = i[mask] / i[index array]: idx is the strictly increasing list of selected 0-based positions; *)
(* how = "mask" | "array" | "list" says how the selection is spelled                                 *)
Take(i, idx, how, k) ==
    /\ Live /\ On("Take") /\ Has(i) /\ Free(k) /\ Len(idx) > 0
    /\ \A x \in 1..Len(idx) : idx[x] \in 0..(Len(pool[i].bins) - 1)
    /\ \A x \in 1..(Len(idx) - 1) : idx[x] < idx[x + 1]
    /\ pool' = [pool EXCEPT ![k] = Taken(pool[i], idx)]
    /\ ghost' = [ghost EXCEPT ![k] = Untracked]

(* i[[2, 0]] / i[[1, 1]] / i[[0, -1]]: an index array that is not an increasing list of non-negative positions.  *)
(* Negative entries count from the end (numpy); the statement says index arrays are taken in increasing order, *)
(* so the result is the selection of the sorted distinct positions addressed.                                  *)
NormIx(n, x) == IF x < 0 THEN x + n ELSE x
TakeUnsorted(i, idx, k) ==
    /\ Live /\ On("TakeUnsorted") /\ Has(i) /\ Free(k) /\ Len(idx) > 0
    /\ \A x \in 1..Len(idx) : idx[x] \in (0 - Len(pool[i].bins))..(Len(pool[i].bins) - 1)
    /\ \/ \E x \in 1..Len(idx) : idx[x] < 0
       \/ \E x \in 1..(Len(idx) - 1) : idx[x] >= idx[x + 1]
    /\ pool' = [pool EXCEPT ![k] = Taken(pool[i], SetToSortSeq({NormIx(Len(pool[i].bins), idx[x]) : x \in 1..Len(idx)}, LAMBDA a, b : a < b))]
    /\ ghost' = [ghost EXCEPT ![k] = Untracked]

(* reversed slice, wrongly sized mask, out-of-range index: refused, the source is untouched *)
IndexRefused(i, what) ==
    /\ Live /\ On("IndexRefused") /\ Has(i)
    /\ what \in {"neg_step", "mask_short", "mask_long", "int_high", "int_low", "array_high"}
    /\ UNCHANGED <<pool, ghost>>

(* HistogramCollection(pool[1], pool[2]).sum() into slot k: the sum of the members *)
CollSum(k) ==
    /\ Live /\ On("CollSum") /\ Has(1) /\ Has(2) /\ Free(k) /\ SameBins(pool[1], pool[2]) /\ Commensurable(pool[1], pool[2])
    /\ Small(Plus(pool[1], pool[2]))
    /\ pool' = [pool EXCEPT ![k] = Plus(pool[1], pool[2])]
    /\ ghost' = [ghost EXCEPT ![k] = GUnion(ghost[1], ghost[2])]

(* HistogramCollection(pool[1], pool[2]).normalize_bins(inplace): every member's content becomes its share of the *)
(* bin's total over the members: ShareTable[i][b] = <<freq_i[b], total[b]>> over a common denominator (bins with an     *)
(* empty total are left open); the conformance engine evaluates the same quotient on the pre-state's values.          *)
(* With inplace = FALSE the members themselves must stay untouched.                                                 *)
ShareTable == [i \in 1..2 |-> [b \in 1..Len(pool[1].freq) |->
                  <<pool[i].freq[b] * pool[3 - i].den, pool[1].freq[b] * pool[2].den + pool[2].freq[b] * pool[1].den>>]]
CollNormBins(inplace) ==
    /\ Live /\ On("CollNormBins") /\ Has(1) /\ Has(2) /\ SameBins(pool[1], pool[2])
    /\ ~inplace
    /\ UNCHANGED <<pool, ghost>>

(* c = HistogramCollection(pool[1], pool[2]).copy(); c[0].fill(p): the copy's members are independent of the originals *)
CollCopyFill(p) ==
    /\ Live /\ On("CollCopyFill") /\ Has(1) /\ Has(2) /\ SameBins(pool[1], pool[2])
    /\ UNCHANGED <<pool, ghost>>

(* del k *)
Drop(k) ==
    /\ Live /\ On("Drop") /\ Has(k)
    /\ \A j \in Ids : j > k => Free(j)
    /\ pool' = [pool EXCEPT ![k] = Null]
    /\ ghost' = [ghost EXCEPT ![k] = Untracked]

Next ==
    \/ \E k \in Ids, s \in Seeds : New(k, s)
    \/ \E i, k \in Ids : Copy(i, k) \/ CopyEmpty(i, k)
    \/ \E i, j, k \in Ids : Add(i, j, k)
    \/ \E i, j, k \in Ids, free \in BOOLEAN : Sub(i, j, k, free)
    \/ \E i, j \in Ids, free \in BOOLEAN : ISub(i, j, free)
    \/ \E i, j \in Ids : IAdd(i, j) \/ AddRefused(i, j) \/ IAddRefused(i, j) \/ ISubRefused(i, j)
    \/ \E i \in Ids, what \in {"add_array", "add_scalar", "iadd_array", "mul_array", "imul_array", "mul_hist", "imul_hist",
                 "div_hist", "idiv_hist", "div_array", "rdiv_scalar", "sub_array",
                 \* a histogram times / over a histogram is no arithmetic at all: refused with free arithmetics on as well
                 "mul_hist_free", "imul_hist_free", "div_hist_free", "idiv_hist_free", "rdiv_scalar_free"} : ForeignRefused(i, what)
    \/ \E i, k \in Ids, c \in Scalars, r \in BOOLEAN : Mul(i, c, k, r)
    \/ \E i, k \in Ids, c \in Scalars : Div(i, c, k)
    \/ \E i \in Ids, c \in Scalars : IMul(i, c) \/ IDiv(i, c)
    \/ \E i \in Ids, b \in BOOLEAN : NegRefused(i, b)
    \/ \E i \in Ids : DivZeroRefused(i)
    \/ \E i, k \in Ids, pc, ip \in BOOLEAN : Normalize(i, pc, ip, k)
    \/ \E i \in Ids, p \in FillPos, w \in FillW : Fill(i, p, w)
    \/ \E i \in Ids, p \in FillPos : FillHalf(i, p)
    \/ \E s \in Seeds : NewRefused(s)
    \/ \E i \in Ids, d \in SetDtypes : SetDtype(i, d) \/ SetDtypeRefused(i, d)
    \/ \E i \in Ids, v \in {1, 2} : SetName(i, v)
    \/ \E i \in Ids : SetFreqHalf(i)
    \/ \E i, k \in Ids, a \in MergeArgs, ip \in BOOLEAN : Merge(i, a, ip, k)
    \/ \E i, k \in Ids, ab \in SliceArgs : Slice(i, ab[1], ab[2], k)
    \/ \E i \in Ids, a \in MergeArgs, ip \in BOOLEAN : MergeRefused(i, a, ip)
    \/ \E i \in Ids, ip \in BOOLEAN : MergeFracRefused(i, ip)
    \/ \E i, k \in Ids, t \in MinFreqs, ip \in BOOLEAN : MergeMinFreq(i, t, ip, k)
    \/ \E k \in Ids : Drop(k)
    \/ \E k \in Ids : CollSum(k)
    \/ \E ip \in BOOLEAN : CollNormBins(ip)
    \/ \E p \in FillPos : CollCopyFill(p)
    \/ \E i \in Ids, ix \in -6..5, lo, hi \in EdgeVals, num \in (IF On("GetBin") THEN 0..MaxVal ELSE {}) : GetBin(i, ix, lo, hi, num)
    \/ \E i, k \in Ids, idx \in TakeArgs, how \in {"mask", "array", "list"} : Take(i, idx, how, k)
    \/ \E i, k \in Ids, idx \in TakeArgs : TakeUnsorted(i, idx, k)
    \/ \E i \in Ids, what \in {"neg_step", "mask_short", "mask_long", "int_high", "int_low", "array_high"} : IndexRefused(i, what)

Spec == Init /\ [][Next]_vars

---------------------------------------------------------------------------
(* C05: a member whose data is tracked is exactly the histogram of that data. *)
SumIsUnion ==
    \A i \in Ids : (Has(i) /\ ghost[i] # Untracked /\ pool[i].den = 1) =>
        LET ref == FoldSet(LAMBDA t, acc : FoldLeft(LAMBDA a2, x : DepositR(a2, t[1], t[2]), acc, [x \in 1..t[3] |-> x]),
                           EmptyRec(pool[i].bins, pool[i].keep, pool[i].dtype), ghost[i])
        IN  /\ pool[i].freq = ref.freq /\ pool[i].err2 = ref.err2
            /\ (IsNum(pool[i].under) => pool[i].under = ref.under)
            /\ (IsNum(pool[i].over) => pool[i].over = ref.over)
            /\ (pool[i].stv = "ok" /\ pool[i].allIn => pool[i].st = ref.st)

(* C05: + is commutative and associative on the view (all live compatible pairs/triples). *)
Commutative ==
    \A i, j \in Ids : (Has(i) /\ Has(j) /\ SameBins(pool[i], pool[j])) =>
        LET x == Plus(pool[i], pool[j]) y == Plus(pool[j], pool[i])
        IN  x.freq = y.freq /\ x.err2 = y.err2 /\ x.under = y.under /\ x.over = y.over /\ x.dtype = y.dtype /\ x.st = y.st

Associative ==
    \A i, j, k \in Ids : (Has(i) /\ Has(j) /\ Has(k) /\ SameBins(pool[i], pool[j]) /\ SameBins(pool[j], pool[k])) =>
        LET x == Plus(Plus(pool[i], pool[j]), pool[k]) y == Plus(pool[i], Plus(pool[j], pool[k]))
        IN  x.freq = y.freq /\ x.err2 = y.err2 /\ x.under = y.under /\ x.over = y.over /\ x.dtype = y.dtype /\ x.st = y.st

(* C06: scaling is linear: (h*c)/c = h as values; proportions are kept. *)
MulDivIdentity ==
    \A i \in Ids, c \in Scalars : (Has(i) /\ c[1] > 0) =>
        LET x == Scale(Scale(pool[i], c[1], c[2], "f8"), c[2], c[1], "f8")
        IN  \A b \in 1..Len(x.freq) : x.freq[b] * pool[i].den = pool[i].freq[b] * x.den
                                      /\ x.err2[b] * pool[i].den * pool[i].den = pool[i].err2[b] * x.den * x.den

NormalTotal ==
    \A i \in Ids : (Has(i) /\ Total(pool[i]) > 0) =>
        LET x == Normalized(pool[i], FALSE) y == Normalized(pool[i], TRUE)
        IN  /\ Total(x) = x.den /\ Total(y) = 100 * y.den
            /\ \A b \in 1..Len(x.freq) : x.freq[b] * Total(pool[i]) = pool[i].freq[b] * Total(x)

(* C06/C14: mean, variance, min, max invariant under positive scaling; weight scales. *)
MomentsScaleInvariant ==
    \A i \in Ids, c \in Scalars : (Has(i) /\ pool[i].stv = "ok" /\ c[1] > 0 /\ pool[i].st.w > 0) =>
        LET x == Scale(pool[i], c[1], c[2], "f8")
        IN  /\ x.st.s1 * pool[i].st.w = pool[i].st.s1 * x.st.w          \* same mean
            /\ x.st.s2 * pool[i].st.w = pool[i].st.s2 * x.st.w          \* same second moment => same variance
            /\ x.st.mn = pool[i].st.mn /\ x.st.mx = pool[i].st.mx
            /\ x.st.w * c[2] * pool[i].den = pool[i].st.w * c[1] * x.den \* weight scales by c

(* C10: merge_bins(amount) conserves content and boundaries (checked on the operator for all live members). *)
MergeLaws ==
    \A i \in Ids, a \in MergeArgs : (Has(i) /\ CanMerge(pool[i].bins, a)) =>
        LET m == Merged(pool[i], a) n == Len(pool[i].bins)
        IN  /\ Total(m) = Total(pool[i]) /\ SumSeq(m.err2) = SumSeq(pool[i].err2)
            /\ m.under = pool[i].under /\ m.over = pool[i].over
            /\ FirstEdge(m.bins) = FirstEdge(pool[i].bins) /\ LastEdge(m.bins) = LastEdge(pool[i].bins)
            /\ Len(m.bins) = (n + a - 1) \div a
            /\ \A j \in 1..Len(m.bins) :
                  /\ Left(m.bins[j]) = Left(pool[i].bins[(j - 1) * a + 1])
                  /\ Right(m.bins[j]) = Right(pool[i].bins[Min2(j * a, n)])
                  /\ m.freq[j] = SumOver({x \in 1..n : (x - 1) \div a = j - 1}, LAMBDA x : pool[i].freq[x])

(* C11: a contiguous slice conserves total + underflow + overflow; selections keep the indexed values. *)
SliceLaws ==
    \A i \in Ids, ab \in SliceArgs :
        (Has(i) /\ SliceLo(Len(pool[i].bins), ab[1]) < SliceHi(Len(pool[i].bins), ab[2])) =>
            LET x == Sliced(pool[i], ab[1], ab[2])
                lo == SliceLo(Len(pool[i].bins), ab[1])
            IN  /\ (IsNum(pool[i].under) /\ IsNum(pool[i].over)) =>
                      Total(x) + x.under + x.over = Total(pool[i]) + pool[i].under + pool[i].over
                /\ \A b \in 1..Len(x.bins) : x.bins[b] = pool[i].bins[lo + b] /\ x.freq[b] = pool[i].freq[lo + b]
                                               /\ x.err2[b] = pool[i].err2[lo + b]

(* C06: after normalize_bins the members' shares in each (non-empty) bin sum to 1. *)
SharesSumToOne ==
    (Has(1) /\ Has(2) /\ SameBins(pool[1], pool[2])) =>
        \A b \in 1..Len(pool[1].freq) :
            LET t == ShareTable IN t[1][b][2] > 0 => t[1][b][1] + t[2][b][1] = t[1][b][2]

(* C12: an action on one member leaves every other member unchanged. *)
Independence ==
    [][Cardinality({i \in Ids : pool'[i] # pool[i]}) <= 1]_vars

(* C13: integer dtypes hold integral values only. *)
IntHoldsInts ==
    \A i \in Ids : (Has(i) /\ pool[i].dtype \in Ints) => IsIntegral(pool[i])

(* C18: shapes agree, squared errors and contents are non-negative. *)
WellFormed ==
    \A i \in Ids : Has(i) =>
        /\ Len(pool[i].freq) = Len(pool[i].bins) /\ Len(pool[i].err2) = Len(pool[i].bins)
        /\ Rising(pool[i].bins)
        /\ \A b \in 1..Len(pool[i].freq) : pool[i].freq[b] >= 0 /\ pool[i].err2[b] >= 0

(* C18: refused calls change nothing (action property over the Refused actions). *)
RefusalIsNoOp ==
    [][((\E i, j \in Ids : AddRefused(i, j) \/ IAddRefused(i, j) \/ ISubRefused(i, j))
        \/ (\E i \in Ids, b \in BOOLEAN : NegRefused(i, b))
        \/ (\E i \in Ids : DivZeroRefused(i))
        \/ (\E i \in Ids, d \in SetDtypes : SetDtypeRefused(i, d))
        \/ (\E i \in Ids, what \in {"neg_step", "mask_short", "mask_long", "int_high", "int_low", "array_high"} : IndexRefused(i, what))
        \/ (\E i \in Ids, a \in MergeArgs, ip \in BOOLEAN : MergeRefused(i, a, ip) \/ MergeFracRefused(i, ip)))
       => UNCHANGED <<pool, ghost>>]_vars
=============================================================================
