---------------------------- MODULE MC_HistND_c10q ----------------------------
EXTENDS HistND
A1  == << <<2, 4>>, <<4, 6>> >>
A3  == << <<2, 4>>, <<4, 8>>, <<8, 10>> >>
A4g == << <<2, 4>>, <<4, 6>>, <<8, 10>>, <<10, 12>> >>
A2b == << <<0, 2>>, <<2, 8>> >>
MCAxisLayouts == { <<A3, A4g>>, <<A1, A3, A2b>>, <<A4g, A3>> }
MCRIncl == { <<TRUE, TRUE>>, <<TRUE, FALSE>>, <<TRUE, FALSE, TRUE>> }
MCRows == { <<3, 3>> }
MCWeights == {1}
MCUBatches == {<< <<<<3, 3>>, 1>> >>}
MCWBatches == {<< <<<<3, 3>>, 2>> >>}
MCOps == {"FromArrays", "Merge", "MergeRefused", "MergeMinFreq", "DropD"}
MCScaleArgs == {<<2, 1>>}
MCCellArgs == {}
MCRetCands == {NoneRet}
MCProjAxes == {<<1>>}
MCMergeArgs == {<<a, x>> : a \in 1..5, x \in 0..3}
MCIndexArgs == {<< <<"i", 0>> >>}
=============================================================================
