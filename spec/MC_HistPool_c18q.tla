---------------------------- MODULE MC_HistPool_c18q ----------------------------
EXTENDS HistPool
LA == << <<2, 4>>, <<4, 6>>, <<6, 8>> >>
LB == << <<2, 4>>, <<4, 8>> >>
MCSeeds == {
  [L |-> LA, keep |-> TRUE,  batch |-> << <<3, 1>>, <<5, 1>>, <<5, 1>>, <<9, 1>> >>, weighted |-> FALSE, dtype |-> "i8", den |-> 1, name |-> 1],
  [L |-> LA, keep |-> TRUE,  batch |-> << <<1, 1>>, <<5, 3>>, <<7, 1>> >>, weighted |-> TRUE,  dtype |-> "f8", den |-> 2, name |-> 2],
  [L |-> LB, keep |-> FALSE, batch |-> << <<3, 1>> >>, weighted |-> FALSE, dtype |-> "i8", den |-> 1, name |-> 1],
  [L |-> LA, keep |-> TRUE,  batch |-> << <<3, 1>> >>, weighted |-> TRUE, dtype |-> "i4", den |-> 2, name |-> 1],
  \* one heavy entry: the content (200) and its error (200) fit int16, the squared error (40000) does not
  [L |-> LA, keep |-> TRUE,  batch |-> << <<3, 200>>, <<5, 3>> >>, weighted |-> TRUE, dtype |-> "i8", den |-> 1, name |-> 1]
}
MCIds == 1..2
MCOps == {"New", "NewRefused", "AddRefused", "IAddRefused", "ISubRefused", "ForeignRefused", "NegRefused", "DivZeroRefused",
          "SetDtypeRefused", "IAdd", "IMul", "IDiv", "Normalize", "Fill", "Merge", "ISub"}
MCSliceArgs == {<<1, NoneIx>>}
MCTakeArgs == {<<0>>}
MCScalars == {<<2, 1, "pyint">>, <<1, 2, "pyfloat">>}
=============================================================================
