SPECIFICATION Spec
CONSTANTS
  Classes = {"polar", "radial2", "radial3", "azimuthal", "spherical", "sphsurf", "cylindrical", "cylsurf"}
  Points2 <- MCPoints2
  Points3 <- MCPoints3
  Batches2 <- MCBatches2
  Batches3 <- MCBatches3
  REdges <- MCREdges
  ZEdges <- MCZEdges
  NPhi = 8
  NTheta = 4
  Ops = {"Facade", "NewEmpty", "Fill", "FillN", "FindBin", "WrongDim", "Project"}
  MaxDepth = 4
CHECK_DEADLOCK FALSE
PROPERTY ProjectionIsMarginal
INVARIANT SectorSymmetry
