---------------------------- MODULE PhystCore ----------------------------
(***************************************************************************)
(* Variable-free operators shared by all physt specifications.             *)
(*                                                                         *)
(* Abstract domain (DESIGN.md 3.2): positions are integers on a doubled    *)
(* lattice (bin edges on even numbers, values anywhere), contents and      *)
(* weights are integers (the embedding may scale them by a dyadic factor), *)
(* NaN positions and unknown counters are the sentinels below.             *)
(***************************************************************************)
EXTENDS Integers, Sequences, FiniteSets, SequencesExt, FiniteSetsExt

NaN      == 99999        \* the NaN position (never a member of a bin)
Unknown  == -99999       \* an under/overflow counter that reads as NaN
Gap      == -1           \* BinOf: value lies between two non-adjacent bins
NaNBin   == -2           \* BinOf: value is NaN
PosInf   == 88888        \* Statistics.min of an empty histogram (+inf)
NegInf   == -88888       \* Statistics.max of an empty histogram (-inf)

Min2(a, b) == IF a <= b THEN a ELSE b
Max2(a, b) == IF a >= b THEN a ELSE b

SumSeq(s) == FoldLeft(LAMBDA acc, x : acc + x, 0, s)
SumOver(S, Op(_)) == FoldSet(LAMBDA x, acc : acc + Op(x), 0, S)

(***************************************************************************)
(* Bins: a sequence of pairs <<left, right>>.                              *)
(***************************************************************************)
Left(b)  == b[1]
Right(b) == b[2]

Rising(bins) ==
    /\ \A i \in 1..Len(bins) : Left(bins[i]) < Right(bins[i])
    /\ \A i \in 1..Len(bins)-1 : Right(bins[i]) <= Left(bins[i+1])

Consecutive(bins) == \A i \in 1..Len(bins)-1 : Right(bins[i]) = Left(bins[i+1])

FirstEdge(bins) == Left(bins[1])
LastEdge(bins)  == Right(bins[Len(bins)])

(* The bin a value belongs to: 1..n, 0 = below the first edge, n+1 = above  *)
(* the last edge, Gap, NaNBin.  Bins are left-closed, right-open; the last  *)
(* bin also contains its right edge iff rightIncl.                          *)
BinOfR(bins, v, rightIncl) ==
    LET n == Len(bins) IN
    IF v = NaN THEN NaNBin
    ELSE IF v < FirstEdge(bins) THEN 0
    ELSE IF v > LastEdge(bins) THEN n + 1
    ELSE IF v = LastEdge(bins) THEN (IF rightIncl THEN n ELSE n + 1)
    ELSE IF \E i \in 1..n : Left(bins[i]) <= v /\ v < Right(bins[i])
         THEN CHOOSE i \in 1..n : Left(bins[i]) <= v /\ v < Right(bins[i])
         ELSE Gap

BinOf(bins, v) == BinOfR(bins, v, TRUE)

InRange(bins, v) == BinOf(bins, v) \in 1..Len(bins)

Zeros(n) == [i \in 1..n |-> 0]

(***************************************************************************)
(* Bags of entries.  An entry is <<position, weight>>; a bag is a set of    *)
(* <<position, weight, multiplicity>> with one triple per distinct entry.   *)
(***************************************************************************)
GEmpty == {}

GAdd(bag, p, w) ==
    IF \E t \in bag : t[1] = p /\ t[2] = w
    THEN LET t == CHOOSE t \in bag : t[1] = p /\ t[2] = w
         IN (bag \ {t}) \cup {<<p, w, t[3] + 1>>}
    ELSE bag \cup {<<p, w, 1>>}

GAddSeq(bag, batch) == FoldLeft(LAMBDA b, e : GAdd(b, e[1], e[2]), bag, batch)

GOfSeq(batch) == GAddSeq(GEmpty, batch)

GWeight(bag)  == SumOver(bag, LAMBDA t : t[2] * t[3])
GCount(bag)   == SumOver(bag, LAMBDA t : t[3])
GReal(bag)    == {t \in bag : t[1] # NaN}
GIn(bag, bins, i) == {t \in bag : BinOf(bins, t[1]) = i}

=============================================================================
