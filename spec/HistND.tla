------------------------------- MODULE HistND -------------------------------
(***************************************************************************)
(* One N-dimensional histogram (physt.h / h2 / h3, HistogramND,            *)
(* Histogram2D): construction from rows, fill, fill_n, find_bin, and the   *)
(* operations that derive a second histogram from it: projection, T,       *)
(* accumulate, merge_bins, indexing, partial_normalize.                    *)
(*                                                                         *)
(* Contents are functions over index tuples.  Axis a has its own bins and  *)
(* its own right-edge rule rincl[a].                                       *)
(*                                                                         *)
(* Serves C02, C09 and the ND parts of C03, C10, C11, C12, C18.            *)
(***************************************************************************)
EXTENDS PhystCore, TLC

CONSTANTS AxisLayouts,   \* set of <<bins per axis>> (sequences of bin sequences)
          RInclChoices,  \* set of sequences of BOOLEAN (per-axis right-edge inclusion)
          Rows,          \* set of rows (tuples of positions, NaN allowed)
          Weights,
          UBatches, WBatches,    \* sequences of <<row, w>>
          Ops, MaxDepth,
          ProjAxes,      \* set of sequences of axes (1-based) for projection
          MergeArgs,     \* set of <<amount, axis>> (axis 0 = all)
          ScaleArgs,     \* set of <<p, q>> factors
          MinFreqs,      \* thresholds for merge_bins(min_frequency=...)
          CellArgs,      \* set of <<ix, lows, highs, num>> candidates for h[i, j, ...]
          RetCands,      \* candidate return values of fill / find_bin (index tuples and NoneRet)
          IndexArgs      \* set of index tuples: per axis <<"i", k>> or <<"s", start, stop>>

VARIABLES h,      \* the histogram, or Null
          d,      \* a derived histogram, or Null
          ghost,  \* bag of <<row, w, multiplicity>> entered into h
          calls

vars == <<h, d, ghost, calls>>
Null == [null |-> TRUE]
NoneRet == <<-7>>
NoneIx == -99
Live == calls < MaxDepth /\ calls' = calls + 1
On(op) == op \in Ops

Dim(x) == Len(x.bins)
Shape(x) == [a \in 1..Dim(x) |-> Len(x.bins[a])]
MaxN == 4
Cells(sh) == {c \in [1..Len(sh) -> 1..MaxN] : \A a \in 1..Len(sh) : c[a] <= sh[a]}
ZeroF(sh) == [c \in Cells(sh) |-> 0]
TotalF(f) == SumOver(DOMAIN f, LAMBDA c : f[c])

EmptyND(LL, ri, keep) ==
    [bins |-> LL, rincl |-> ri, keep |-> keep,
     freq |-> ZeroF([a \in 1..Len(LL) |-> Len(LL[a])]), err2 |-> ZeroF([a \in 1..Len(LL) |-> Len(LL[a])]),
     missed |-> 0, names |-> [a \in 1..Len(LL) |-> a], den |-> 1]   \* contents are freq/den, errors err2/den^2, missed/den

HasNaN(row) == \E a \in 1..Len(row) : row[a] = NaN
CellOf(x, row) == [a \in 1..Dim(x) |-> BinOfR(x.bins[a], row[a], x.rincl[a])]
Inside(x, row) == \A a \in 1..Dim(x) : CellOf(x, row)[a] \in 1..Len(x.bins[a])

DepositK(x, row, w, k) ==
    IF HasNaN(row) THEN x
    ELSE IF Inside(x, row)
         THEN [x EXCEPT !.freq[CellOf(x, row)] = @ + w * k, !.err2[CellOf(x, row)] = @ + w * w * k]
         ELSE IF x.keep THEN [x EXCEPT !.missed = @ + w * k] ELSE x

DepositAll(x, batch) == FoldLeft(LAMBDA acc, e : DepositK(acc, e[1], e[2], 1), x, batch)

(* a row with a NaN coordinate lies in no cell *)
RetOf(x, row) == IF ~HasNaN(row) /\ Inside(x, row) THEN [a \in 1..Dim(x) |-> CellOf(x, row)[a] - 1] ELSE NoneRet

AllOnes(batch) == \A i \in 1..Len(batch) : batch[i][2] = 1

GAddRow(bag, r, w) ==
    IF \E t \in bag : t[1] = r /\ t[2] = w
    THEN LET t == CHOOSE t \in bag : t[1] = r /\ t[2] = w IN (bag \ {t}) \cup {<<r, w, t[3] + 1>>}
    ELSE bag \cup {<<r, w, 1>>}
GAddRows(bag, batch) == FoldLeft(LAMBDA b, e : GAddRow(b, e[1], e[2]), bag, batch)

---------------------------------------------------------------------------
(* Derivations *)

(* axes kept (a set), in their original order *)
KeptSeq(x, axset) == SetToSortSeq(axset, LAMBDA p, q : p < q)

Marginal(x, axset) ==
    LET ks == KeptSeq(x, axset)
        nsh == [i \in 1..Len(ks) |-> Len(x.bins[ks[i]])]
        match(c, full) == \A i \in 1..Len(ks) : full[ks[i]] = c[i]
    IN  [bins |-> [i \in 1..Len(ks) |-> x.bins[ks[i]]],
         rincl |-> [i \in 1..Len(ks) |-> x.rincl[ks[i]]],
         keep |-> TRUE,
         freq |-> [c \in Cells(nsh) |-> SumOver({f \in DOMAIN x.freq : match(c, f)}, LAMBDA f : x.freq[f])],
         err2 |-> [c \in Cells(nsh) |-> SumOver({f \in DOMAIN x.err2 : match(c, f)}, LAMBDA f : x.err2[f])],
         missed |-> 0,
         names |-> [i \in 1..Len(ks) |-> x.names[ks[i]]], den |-> x.den]

Transposed(x) ==
    [x EXCEPT !.bins = <<x.bins[2], x.bins[1]>>, !.rincl = <<x.rincl[2], x.rincl[1]>>,
              !.names = <<x.names[2], x.names[1]>>,
              !.freq = [c \in Cells(<<Len(x.bins[2]), Len(x.bins[1])>>) |-> x.freq[<<c[2], c[1]>>]],
              !.err2 = [c \in Cells(<<Len(x.bins[2]), Len(x.bins[1])>>) |-> x.err2[<<c[2], c[1]>>]]]

Accumulated(x, ax) ==
    [x EXCEPT !.freq = [c \in DOMAIN x.freq |->
        SumOver({f \in DOMAIN x.freq : f[ax] <= c[ax] /\ \A a \in 1..Dim(x) : a # ax => f[a] = c[a]}, LAMBDA f : x.freq[f])]]

RunCount(n, a) == (n + a - 1) \div a
RunOf(i, a) == ((i - 1) \div a) + 1
CanMergeAxis(bins, a) ==
    \A i \in 1..(Len(bins) - 1) : RunOf(i, a) = RunOf(i + 1, a) => Right(bins[i]) = Left(bins[i + 1])
MergedAxisBins(bins, a) ==
    [j \in 1..RunCount(Len(bins), a) |->
        <<Left(bins[(j - 1) * a + 1]), Right(bins[Min2(j * a, Len(bins))])>>]

MergedAxis(x, amount, ax) ==
    LET nb == MergedAxisBins(x.bins[ax], amount)
        nsh == [a \in 1..Dim(x) |-> IF a = ax THEN Len(nb) ELSE Len(x.bins[a])]
        src(c) == {f \in DOMAIN x.freq : RunOf(f[ax], amount) = c[ax] /\ \A a \in 1..Dim(x) : a # ax => f[a] = c[a]}
    IN  [x EXCEPT !.bins[ax] = nb,
                  !.rincl[ax] = x.rincl[ax],
                  !.freq = [c \in Cells(nsh) |-> SumOver(src(c), LAMBDA f : x.freq[f])],
                  !.err2 = [c \in Cells(nsh) |-> SumOver(src(c), LAMBDA f : x.err2[f])]]

RECURSIVE MergedAll(_, _, _)
MergedAll(x, amount, ax) == IF ax > Dim(x) THEN x ELSE MergedAll(MergedAxis(x, amount, ax), amount, ax + 1)
CanMergeAll(x, amount) == \A a \in 1..Dim(x) : CanMergeAxis(x.bins[a], amount)

(* Index tuples: per axis <<"i", k>> (0-based, negative allowed) or <<"s", start, stop>>. *)
NormIx(n, k) == IF k < 0 THEN n + k ELSE k
Clamp(n, i, dflt) == IF i = NoneIx THEN dflt ELSE IF i < 0 THEN Max2(n + i, 0) ELSE Min2(i, n)
IxValid(x, ix) ==
    /\ Len(ix) <= Dim(x)
    /\ \A a \in 1..Len(ix) :
         IF ix[a][1] = "i" THEN NormIx(Len(x.bins[a]), ix[a][2]) \in 0..(Len(x.bins[a]) - 1)
         ELSE Clamp(Len(x.bins[a]), ix[a][2], 0) < Clamp(Len(x.bins[a]), ix[a][3], Len(x.bins[a]))
AxLo(x, ix, a) == IF a > Len(ix) THEN 0 ELSE IF ix[a][1] = "i" THEN NormIx(Len(x.bins[a]), ix[a][2]) ELSE Clamp(Len(x.bins[a]), ix[a][2], 0)
AxHi(x, ix, a) == IF a > Len(ix) THEN Len(x.bins[a]) ELSE IF ix[a][1] = "i" THEN AxLo(x, ix, a) + 1 ELSE Clamp(Len(x.bins[a]), ix[a][3], Len(x.bins[a]))
IsIntIx(ix, a) == a <= Len(ix) /\ ix[a][1] = "i"

Indexed(x, ix) ==
    LET kept == {a \in 1..Dim(x) : ~IsIntIx(ix, a)}
        ks == SetToSortSeq(kept, LAMBDA p, q : p < q)
        nsh == [i \in 1..Len(ks) |-> AxHi(x, ix, ks[i]) - AxLo(x, ix, ks[i])]
        full(c) == [a \in 1..Dim(x) |-> IF a \in kept
                                         THEN AxLo(x, ix, a) + c[CHOOSE i \in 1..Len(ks) : ks[i] = a]
                                         ELSE AxLo(x, ix, a) + 1]
    IN  [bins |-> [i \in 1..Len(ks) |-> SubSeq(x.bins[ks[i]], AxLo(x, ix, ks[i]) + 1, AxHi(x, ix, ks[i]))],
         rincl |-> [i \in 1..Len(ks) |-> x.rincl[ks[i]]],
         keep |-> x.keep,
         freq |-> [c \in Cells(nsh) |-> x.freq[full(c)]],
         err2 |-> [c \in Cells(nsh) |-> x.err2[full(c)]],
         missed |-> 0,
         names |-> [i \in 1..Len(ks) |-> x.names[ks[i]]], den |-> x.den]

(* h * (p/q): contents and missed scale by p/q, squared errors by (p/q)^2 *)
ScaledND(x, p, q) ==
    [x EXCEPT !.freq = [c \in DOMAIN x.freq |-> x.freq[c] * p], !.err2 = [c \in DOMAIN x.err2 |-> x.err2[c] * p * p],
              !.missed = @ * p, !.den = @ * q]

(* merge_bins(min_frequency) on one axis: SOME coarsening of that axis into runs of adjacent bins *)
CompositionsND(n) == {q \in UNION {[1..m -> 1..n] : m \in 1..n} : SumSeq(q) = n}
RunStartND(q, j) == 1 + SumSeq(SubSeq(q, 1, j - 1))
RunOfQ(q, i) == CHOOSE j \in 1..Len(q) : RunStartND(q, j) <= i /\ i < RunStartND(q, j) + q[j]
CoarsenedAxis(x, ax, q) ==
    LET nb == [j \in 1..Len(q) |-> <<Left(x.bins[ax][RunStartND(q, j)]), Right(x.bins[ax][RunStartND(q, j) + q[j] - 1])>>]
        nsh == [a \in 1..Dim(x) |-> IF a = ax THEN Len(q) ELSE Len(x.bins[a])]
        src(c) == {f \in DOMAIN x.freq : RunOfQ(q, f[ax]) = c[ax] /\ \A a \in 1..Dim(x) : a # ax => f[a] = c[a]}
    IN  [x EXCEPT !.bins[ax] = nb,
                  !.freq = [c \in Cells(nsh) |-> SumOver(src(c), LAMBDA f : x.freq[f])],
                  !.err2 = [c \in Cells(nsh) |-> SumOver(src(c), LAMBDA f : x.err2[f])]]

---------------------------------------------------------------------------
Init == h = Null /\ d = Null /\ ghost = {} /\ calls = 0

NewEmpty(LL, ri, keep) ==
    /\ Live /\ On("NewEmpty") /\ h = Null /\ Len(ri) = Len(LL)
    /\ h' = EmptyND(LL, ri, keep) /\ UNCHANGED <<d, ghost>>

Construct(LL, ri, batch, weighted) ==
    /\ Live /\ On("Construct") /\ h = Null /\ Len(ri) = Len(LL)
    /\ weighted \/ AllOnes(batch)
    /\ \A i \in 1..Len(batch) : Len(batch[i][1]) = Len(LL)
    /\ h' = DepositAll(EmptyND(LL, ri, TRUE), batch)
    /\ ghost' = GAddRows({}, batch) /\ UNCHANGED d

(* HistogramND(binnings, frequencies=F, errors2=E): every cell gets a distinct content, *)
(* so that an operation working on the wrong axis cannot go unnoticed.                  *)
CodeOf(c, base) == 1 + SumOver(1..Len(c), LAMBDA a : (c[a] - 1) * base^(a - 1))
FromArrays(LL, ri) ==
    /\ Live /\ On("FromArrays") /\ h = Null /\ Len(ri) = Len(LL)
    /\ h' = [EmptyND(LL, ri, TRUE) EXCEPT
                !.freq = [c \in Cells([a \in 1..Len(LL) |-> Len(LL[a])]) |-> CodeOf(c, 4)],
                !.err2 = [c \in Cells([a \in 1..Len(LL) |-> Len(LL[a])]) |-> 2 * CodeOf(c, 4) + 1]]
    /\ ghost' = {<<"arrays">>} /\ UNCHANGED d

Fill(row, w, r) ==
    /\ Live /\ On("Fill") /\ h # Null /\ Len(row) = Dim(h)      \* a NaN row is skipped: nothing changes, None is returned
    /\ r = RetOf(h, row)
    /\ h' = DepositK(h, row, w, 1)
    /\ ghost' = GAddRow(ghost, row, w) /\ UNCHANGED d

FillN(batch, weighted) ==
    /\ Live /\ On("FillN") /\ h # Null
    /\ weighted \/ AllOnes(batch)
    /\ \A i \in 1..Len(batch) : Len(batch[i][1]) = Dim(h)
    /\ h' = DepositAll(h, batch)
    /\ ghost' = GAddRows(ghost, batch) /\ UNCHANGED d

FindBin(row, r) ==
    /\ Live /\ On("FindBin") /\ h # Null /\ Len(row) = Dim(h)
    /\ r = RetOf(h, row)
    /\ UNCHANGED <<h, d, ghost>>

(* d = h.projection(axes...) (axes in any order, by index or name) *)
Project(axes) ==
    /\ Live /\ On("Project") /\ h # Null /\ d = Null
    /\ \A i \in 1..Len(axes) : axes[i] \in 1..Dim(h)
    /\ \A i, j \in 1..Len(axes) : i # j => axes[i] # axes[j]
    /\ Len(axes) < Dim(h) /\ Len(axes) > 0
    /\ d' = Marginal(h, {axes[i] : i \in 1..Len(axes)})
    /\ UNCHANGED <<h, ghost>>

(* d = d.projection(axes...): projecting in steps *)
ProjectAgain(axes) ==
    /\ Live /\ On("ProjectAgain") /\ d # Null /\ Dim(d) >= 2
    /\ \A i \in 1..Len(axes) : axes[i] \in 1..Dim(d)
    /\ \A i, j \in 1..Len(axes) : i # j => axes[i] # axes[j]
    /\ Len(axes) < Dim(d) /\ Len(axes) > 0
    /\ d' = Marginal(d, {axes[i] : i \in 1..Len(axes)})
    /\ UNCHANGED <<h, ghost>>

(* projection with no axis, a duplicate axis or an unknown axis must be refused *)
ProjectRefused(axes) ==
    /\ Live /\ On("ProjectRefused") /\ h # Null /\ d = Null
    /\ \/ Len(axes) = 0
       \/ \E i \in 1..Len(axes) : axes[i] \notin 1..Dim(h)
       \/ \E i, j \in 1..Len(axes) : i # j /\ axes[i] = axes[j]
    /\ UNCHANGED <<h, d, ghost>>

(* d = h.T (2D) *)
Transpose ==
    /\ Live /\ On("Transpose") /\ h # Null /\ Dim(h) = 2 /\ d = Null
    /\ d' = Transposed(h) /\ UNCHANGED <<h, ghost>>

TransposeAgain ==
    /\ Live /\ On("Transpose") /\ d # Null /\ Dim(d) = 2
    /\ d' = Transposed(d) /\ UNCHANGED <<h, ghost>>

(* d = h.accumulate(axis) *)
Accumulate(ax) ==
    /\ Live /\ On("Accumulate") /\ h # Null /\ d = Null /\ ax \in 1..Dim(h)
    /\ d' = Accumulated(h, ax) /\ UNCHANGED <<h, ghost>>

(* d = h.merge_bins(amount, axis=ax) ; ax = 0: all axes ; inplace: h itself *)
Merge(amount, ax, inplace) ==
    /\ Live /\ On("Merge") /\ h # Null /\ ax \in 0..Dim(h)
    /\ IF ax = 0 THEN CanMergeAll(h, amount) ELSE CanMergeAxis(h.bins[ax], amount)
    /\ LET m == IF ax = 0 THEN MergedAll(h, amount, 1) ELSE MergedAxis(h, amount, ax)
       IN  IF inplace THEN h' = m /\ UNCHANGED d
           ELSE d = Null /\ d' = m /\ UNCHANGED h
    /\ UNCHANGED ghost

(* merging across a gap must be refused and change nothing *)
MergeRefused(amount, ax, inplace) ==
    /\ Live /\ On("MergeRefused") /\ h # Null /\ ax \in 0..Dim(h)
    /\ IF ax = 0 THEN ~CanMergeAll(h, amount) ELSE ~CanMergeAxis(h.bins[ax], amount)
    /\ UNCHANGED <<h, d, ghost>>

(* d = h[ix] *)
GetItem(ix) ==
    /\ Live /\ On("GetItem") /\ h # Null /\ d = Null /\ IxValid(h, ix)
    /\ \E a \in 1..Dim(h) : ~IsIntIx(ix, a)            \* at least one axis survives
    /\ d' = Indexed(h, ix) /\ UNCHANGED <<h, ghost>>

(* HistogramND(binnings, frequencies, errors2, missed=m, keep_missed=keep): arrays plus a missed counter *)
FromArraysM(LL, ri, m, keep) ==
    /\ Live /\ On("FromArraysM") /\ h = Null /\ Len(ri) = Len(LL)
    /\ h' = [EmptyND(LL, ri, keep) EXCEPT
                !.freq = [c \in Cells([a \in 1..Len(LL) |-> Len(LL[a])]) |-> CodeOf(c, 4)],
                !.err2 = [c \in Cells([a \in 1..Len(LL) |-> Len(LL[a])]) |-> 2 * CodeOf(c, 4) + 1],
                !.missed = m]
    /\ ghost' = {<<"arrays">>} /\ UNCHANGED d

(* d = h * c, c * h, h / c  /  h *= c, h /= c   (c = p/q > 0) *)
ScaleND(p, q, how, inplace) ==
    /\ Live /\ On("ScaleND") /\ h # Null /\ p > 0 /\ q > 0 /\ h.den * q <= 64 /\ TotalF(h.err2) * p * p <= 1000000
    /\ how \in {"mul", "rmul", "div"}
    /\ IF inplace THEN how # "rmul" /\ h' = ScaledND(h, p, q) /\ UNCHANGED d
       ELSE d = Null /\ d' = ScaledND(h, p, q) /\ UNCHANGED h
    /\ UNCHANGED ghost

(* d = h.normalize(percent) / h.normalize(inplace=True): total 1 (or 100), proportions and missed scaled alike *)
NormalizeND(percent, inplace) ==
    /\ Live /\ On("NormalizeND") /\ h # Null /\ TotalF(h.freq) > 0 /\ h.den = 1
    /\ LET x == [h EXCEPT !.den = TotalF(h.freq)]
           y == IF percent THEN ScaledND(x, 100, 1) ELSE x
       IN  IF inplace THEN h' = y /\ UNCHANGED d ELSE d = Null /\ d' = y /\ UNCHANGED h
    /\ UNCHANGED ghost

(* h.partial_normalize(axis) (2D): every column (axis 1) or row (axis 2) sums to 1; `table` is the expected content *)
(* of every cell as <<freq, divisor>> (divisor 1 for an all-zero line), `etable` the squared errors over divisor^2  *)
LineSum(x, ax, c) == SumOver({f \in DOMAIN x.freq : f[3 - ax] = c[3 - ax]}, LAMBDA f : x.freq[f])
PartialNorm(ax, inplace, table) ==
    /\ Live /\ On("PartialNorm") /\ h # Null /\ Dim(h) = 2 /\ ax \in 1..2 /\ h.den = 1
    /\ table = [c \in DOMAIN h.freq |-> <<h.freq[c], IF LineSum(h, ax, c) = 0 THEN 1 ELSE LineSum(h, ax, c)>>]
    /\ UNCHANGED <<h, d, ghost>>

(* d = h.merge_bins(min_frequency=t, axis=ax): the code must produce ONE of the coarsenings of that axis *)
MergeMinFreq(t, ax, inplace) ==
    /\ Live /\ On("MergeMinFreq") /\ h # Null /\ ax \in 1..Dim(h) /\ Consecutive(h.bins[ax])
    /\ \E q \in CompositionsND(Len(h.bins[ax])) :
          IF inplace THEN h' = CoarsenedAxis(h, ax, q) /\ UNCHANGED d
          ELSE d = Null /\ d' = CoarsenedAxis(h, ax, q) /\ UNCHANGED h
    /\ UNCHANGED ghost

(* h[i, j, ...] with one integer per axis (negative allowed): returns the cell's edges and content, creates nothing. *)
(* `lows`, `highs` are the expected left / right edges per axis, `num` the expected content numerator.             *)
GetCell(ix, lows, highs, num) ==
    /\ Live /\ On("GetCell") /\ h # Null /\ Len(ix) = Dim(h)
    /\ \A a \in 1..Dim(h) : NormIx(Len(h.bins[a]), ix[a]) \in 0..(Len(h.bins[a]) - 1)
    /\ lows = [a \in 1..Dim(h) |-> Left(h.bins[a][NormIx(Len(h.bins[a]), ix[a]) + 1])]
    /\ highs = [a \in 1..Dim(h) |-> Right(h.bins[a][NormIx(Len(h.bins[a]), ix[a]) + 1])]
    /\ num = h.freq[[a \in 1..Dim(h) |-> NormIx(Len(h.bins[a]), ix[a]) + 1]]
    /\ UNCHANGED <<h, d, ghost>>

(* del d *)
DropD == /\ Live /\ On("DropD") /\ d # Null /\ d' = Null /\ UNCHANGED <<h, ghost>>

Next ==
    \/ \E LL \in AxisLayouts, ri \in RInclChoices, keep \in BOOLEAN : NewEmpty(LL, ri, keep)
    \/ \E LL \in AxisLayouts, ri \in RInclChoices : FromArrays(LL, ri)
    \/ \E LL \in AxisLayouts, ri \in RInclChoices, b \in UBatches : Construct(LL, ri, b, FALSE)
    \/ \E LL \in AxisLayouts, ri \in RInclChoices, b \in WBatches : Construct(LL, ri, b, TRUE)
    \/ \E row \in Rows, w \in Weights, r \in RetCands : Fill(row, w, r)
    \/ \E row \in Rows, r \in RetCands : FindBin(row, r)
    \/ \E b \in UBatches : FillN(b, FALSE)
    \/ \E b \in WBatches : FillN(b, TRUE)
    \/ \E axes \in ProjAxes : Project(axes) \/ ProjectAgain(axes) \/ ProjectRefused(axes)
    \/ Transpose \/ TransposeAgain
    \/ \E ax \in 1..3 : Accumulate(ax)
    \/ \E m \in MergeArgs, ip \in BOOLEAN : Merge(m[1], m[2], ip) \/ MergeRefused(m[1], m[2], ip)
    \/ \E ix \in IndexArgs : GetItem(ix)
    \/ \E c \in CellArgs : GetCell(c[1], c[2], c[3], c[4])
    \/ DropD
    \/ \E LL \in AxisLayouts, ri \in RInclChoices, m \in {0, 3}, keep \in BOOLEAN : FromArraysM(LL, ri, m, keep)
    \/ \E c \in ScaleArgs, how \in {"mul", "rmul", "div"}, ip \in BOOLEAN : ScaleND(c[1], c[2], how, ip)
    \/ \E pc, ip \in BOOLEAN : NormalizeND(pc, ip)
    \/ \E LL \in AxisLayouts, ax \in 1..2, ip \in BOOLEAN :
          \E tb \in {[c \in Cells([a \in 1..Len(LL) |-> Len(LL[a])]) |->
                        <<CodeOf(c, 4), SumOver({f \in Cells([a \in 1..Len(LL) |-> Len(LL[a])]) : Len(LL) = 2 /\ f[3 - ax] = c[3 - ax]}, LAMBDA f : CodeOf(f, 4))>>]} :
              PartialNorm(ax, ip, tb)
    \/ \E t \in MinFreqs, ax \in 1..3, ip \in BOOLEAN : MergeMinFreq(t, ax, ip)

Spec == Init /\ [][Next]_vars

---------------------------------------------------------------------------
FromRows == ghost # {<<"arrays">>}
RealRows == IF FromRows THEN {t \in ghost : ~HasNaN(t[1])} ELSE {}

(* C02: every cell holds the weight of the rows whose every coordinate lies in that axis' bin. *)
CellContents ==
    (h # Null /\ FromRows) => \A c \in DOMAIN h.freq :
        /\ h.freq[c] = SumOver({t \in RealRows : Inside(h, t[1]) /\ CellOf(h, t[1]) = c}, LAMBDA t : t[2] * t[3])
        /\ h.err2[c] = SumOver({t \in RealRows : Inside(h, t[1]) /\ CellOf(h, t[1]) = c}, LAMBDA t : t[2] * t[2] * t[3])

(* C02: total + missed = input weight (tracking on). *)
MissedAccounting ==
    (h # Null /\ h.keep /\ FromRows) => TotalF(h.freq) + h.missed = SumOver(RealRows, LAMBDA t : t[2] * t[3])

NoKeepNoMissed == (h # Null /\ ~h.keep) => h.missed = 0

(* C09: the derived histogram of a projection has the parent's total. *)
ShapesMatch ==
    /\ h # Null => DOMAIN h.freq = Cells(Shape(h)) /\ DOMAIN h.err2 = Cells(Shape(h))
    /\ d # Null => DOMAIN d.freq = Cells(Shape(d)) /\ DOMAIN d.err2 = Cells(Shape(d))

(* C09: projecting in steps equals projecting once; T.T = identity; totals are preserved (checked on operators). *)
ProjectionLaws ==
    h # Null =>
        /\ \A S \in (SUBSET (1..Dim(h))) \ {{}, 1..Dim(h)} :
              /\ TotalF(Marginal(h, S).freq) = TotalF(h.freq)
              /\ TotalF(Marginal(h, S).err2) = TotalF(h.err2)
              /\ \A T \in (SUBSET S) \ {{}, S} :
                    LET ks == KeptSeq(h, S)
                        Tloc == {i \in 1..Len(ks) : ks[i] \in T}
                        a == Marginal(Marginal(h, S), Tloc)
                        b == Marginal(h, T)
                    IN  a.freq = b.freq /\ a.err2 = b.err2 /\ a.bins = b.bins /\ a.names = b.names
        /\ (Dim(h) = 2 => Transposed(Transposed(h)) = h)

(* C09: a projection equals the histogram built directly from the kept columns whenever no row *)
(* missed the bins of a dropped axis.                                                           *)
RestrictRow(row, ks) == [i \in 1..Len(ks) |-> row[ks[i]]]
ProjectionEqualsDirect ==
    (h # Null /\ FromRows) =>
        \A S \in (SUBSET (1..Dim(h))) \ {{}, 1..Dim(h)} :
            (\A t \in RealRows : \A a \in (1..Dim(h)) \ S : CellOf(h, t[1])[a] \in 1..Len(h.bins[a])) =>
                LET ks == KeptSeq(h, S)
                    m == Marginal(h, S)
                    e0 == EmptyND([i \in 1..Len(ks) |-> h.bins[ks[i]]], [i \in 1..Len(ks) |-> h.rincl[ks[i]]], TRUE)
                    direct == FoldSet(LAMBDA t, acc : DepositK(acc, RestrictRow(t[1], ks), t[2], t[3]), e0, RealRows)
                IN  m.freq = direct.freq /\ m.err2 = direct.err2

(* C10: merging conserves totals. *)
MergeLaws ==
    h # Null => \A m \in MergeArgs :
        (m[2] \in 1..Dim(h) /\ CanMergeAxis(h.bins[m[2]], m[1])) =>
            /\ TotalF(MergedAxis(h, m[1], m[2]).freq) = TotalF(h.freq)
            /\ TotalF(MergedAxis(h, m[1], m[2]).err2) = TotalF(h.err2)
            /\ FirstEdge(MergedAxis(h, m[1], m[2]).bins[m[2]]) = FirstEdge(h.bins[m[2]])
            /\ LastEdge(MergedAxis(h, m[1], m[2]).bins[m[2]]) = LastEdge(h.bins[m[2]])

(* C06: scaling is linear also for the missed counter; normalisation gives total 1 with unchanged proportions. *)
ScaleLaws ==
    h # Null => \A c \in ScaleArgs :
        LET x == ScaledND(h, c[1], c[2]) IN
        /\ \A cell \in DOMAIN h.freq : x.freq[cell] * h.den * c[2] = h.freq[cell] * c[1] * x.den
        /\ x.missed * h.den * c[2] = h.missed * c[1] * x.den
        /\ TotalF(x.freq) * h.den * c[2] = TotalF(h.freq) * c[1] * x.den

(* C12/C09: deriving never changes the source (action property). *)
SourceUntouched ==
    [][(d' # d) => (h' = h)]_vars
=============================================================================
