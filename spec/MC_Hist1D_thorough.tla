---------------------------- MODULE MC_Hist1D_thorough ----------------------------
EXTENDS Hist1D

\* one bin; two consecutive bins; two bins with a gap; three irregular consecutive bins
MCLayouts == { << <<2, 4>> >>,
               << <<2, 4>>, <<4, 8>> >>,
               << <<2, 4>>, <<6, 8>> >>,
               << <<2, 4>>, <<4, 6>>, <<6, 8>> >>,
               << <<0, 2>>, <<4, 6>>, <<6, 8>> >> }
\* below / first edge / interior / inner edge or right edge / gap or interior / edge / interior / last edge / above / NaN
MCPositions == {-1, 1, 2, 3, 4, 5, 6, 7, 8, 9, NaN}
MCWeights == {1, 2, 3}
UEntries == {<<p, 1>> : p \in MCPositions}
WEntries == {<<p, w>> : p \in {1, 3, 4, 5, 8, 9, NaN}, w \in {1, 2}}
MCUBatches == {<<>>} \cup {<<e>> : e \in UEntries} \cup {<<e1, e2>> : e1 \in UEntries, e2 \in {<<1, 1>>, <<4, 1>>, <<5, 1>>, <<8, 1>>, <<NaN, 1>>}} \cup {<< <<3, 1>>, <<3, 1>>, <<8, 1>> >>, << <<NaN, 1>>, <<5, 1>>, <<9, 1>> >>}
MCWBatches == {<<>>} \cup {<<e>> : e \in WEntries} \cup {<<e1, e2>> : e1 \in WEntries, e2 \in {<<3, 2>>, <<5, 1>>, <<8, 2>>, <<9, 1>>, <<NaN, 2>>}} \cup {<< <<3, 3>>, <<4, 1>>, <<8, 2>> >>}
=============================================================================
