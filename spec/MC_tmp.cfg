SPECIFICATION Spec
CONSTANTS
  Layouts <- MCLayouts
  Positions <- MCPositions
  Weights <- MCWeights
  UBatches <- MCUBatches
  WBatches <- MCWBatches
  MaxDepth = 2
CHECK_DEADLOCK FALSE
