---------------------------- MODULE MC_HistND_c06q ----------------------------
EXTENDS HistND
A1  == << <<2, 4>>, <<4, 6>> >>
A3  == << <<2, 4>>, <<4, 8>>, <<8, 10>> >>
A2b == << <<0, 2>>, <<2, 8>> >>
MCAxisLayouts == { <<A1, A3>>, <<A3, A1, A2b>> }
MCRIncl == { <<TRUE, TRUE>>, <<TRUE, FALSE, TRUE>> }
MCRows == { <<3, 3>> }
MCWeights == {1}
MCUBatches == {<< <<<<3, 3>>, 1>> >>}
MCWBatches == {<< <<<<3, 3>>, 2>> >>}
MCOps == {"FromArraysM", "ScaleND", "NormalizeND", "PartialNorm", "DropD"}
MCScaleArgs == {<<2, 1>>, <<1, 2>>, <<3, 1>>, <<1, 4>>}
MCCellArgs == {}
MCRetCands == {NoneRet}
MCProjAxes == {<<1>>}
MCMergeArgs == {<<2, 1>>}
MCIndexArgs == {<< <<"i", 0>> >>}
=============================================================================
