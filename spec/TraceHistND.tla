---------------------------- MODULE TraceHistND ----------------------------
(***************************************************************************)
(* Engine T for C02 / C03 (N-D): executions recorded from the real code on *)
(* RAW FLOATS - random rows (values on edges, one ulp beside them, outside,*)
(* NaN), 2 or 3 axes with random consecutive or gapped bins and per-axis   *)
(* right-edge declarations, entered by h / h2 / h3, fill and fill_n - are  *)
(* validated against HistND.  Per axis the recorder replaces every         *)
(* distinct float (edges and coordinates) by its RANK; contents travel as  *)
(* flat C-ordered lists.                                                   *)
(***************************************************************************)
EXTENDS HistND, Json, IOUtils

Trace == ndJsonDeserialize(IOEnv.TRACE_FILE)

VARIABLE l
tvars == <<h, d, ghost, calls, l>>

BinsOf(ev) == [a \in 1..Len(ev.bins) |-> [i \in 1..Len(ev.bins[a]) |-> <<ev.bins[a][i][1], ev.bins[a][i][2]>>]]
RInclOf(ev) == [a \in 1..Len(ev.rincl) |-> ev.rincl[a]]
RowOf(r) == [a \in 1..Len(r) |-> r[a]]
BatchOf(ev) == [i \in 1..Len(ev.batch) |-> <<RowOf(ev.batch[i][1]), ev.batch[i][2]>>]

Stride(sh, a) == FoldLeft(LAMBDA acc, b : IF b > a THEN acc * sh[b] ELSE acc, 1, [b \in 1..Len(sh) |-> b])
FlatIx(c, sh) == 1 + SumOver(1..Len(sh), LAMBDA a : (c[a] - 1) * Stride(sh, a))

(* the observed public state must be the specification's state *)
Matches(ev) ==
    /\ \A c \in DOMAIN h'.freq :
          /\ h'.freq[c] = ev.freq[FlatIx(c, Shape(h'))]
          /\ h'.err2[c] = ev.err2[FlatIx(c, Shape(h'))]
    /\ Len(ev.freq) = Cardinality(DOMAIN h'.freq)
    /\ h'.missed = ev.missed

TraceInit == Init /\ l = 1

TraceConstruct ==
    /\ Trace[l].op = "construct"
    /\ h' = DepositAll(EmptyND(BinsOf(Trace[l]), RInclOf(Trace[l]), Trace[l].keep), BatchOf(Trace[l]))
    /\ ghost' = GAddRows({}, BatchOf(Trace[l]))
    /\ d' = Null /\ calls' = 0
    /\ Matches(Trace[l])

TraceFill ==
    /\ Trace[l].op = "fill"
    /\ Fill(RowOf(Trace[l].batch[1][1]), Trace[l].batch[1][2], RowOf(Trace[l].ret))
    /\ Matches(Trace[l])

TraceFillN ==
    /\ Trace[l].op = "filln"
    /\ FillN(BatchOf(Trace[l]), TRUE)
    /\ Matches(Trace[l])

TraceNext ==
    /\ l <= Len(Trace)
    /\ l' = l + 1
    /\ (TraceConstruct \/ TraceFill \/ TraceFillN)

TraceSpec == TraceInit /\ [][TraceNext]_tvars
=============================================================================
