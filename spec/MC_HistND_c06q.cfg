SPECIFICATION Spec
CONSTANTS
  AxisLayouts <- MCAxisLayouts
  RInclChoices <- MCRIncl
  Rows <- MCRows
  Weights <- MCWeights
  UBatches <- MCUBatches
  WBatches <- MCWBatches
  Ops <- MCOps
  ScaleArgs <- MCScaleArgs
  MinFreqs = {2}
  CellArgs <- MCCellArgs
  RetCands <- MCRetCands
  ProjAxes <- MCProjAxes
  MergeArgs <- MCMergeArgs
  IndexArgs <- MCIndexArgs
  MaxDepth = 3
CHECK_DEADLOCK FALSE
INVARIANT CellContents
INVARIANT MissedAccounting
INVARIANT ScaleLaws
INVARIANT ShapesMatch
INVARIANT ProjectionLaws
PROPERTY SourceUntouched
