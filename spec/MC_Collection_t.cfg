SPECIFICATION Spec
CONSTANTS
  L <- MCL
  LOther <- MCLOther
  Seeds <- MCSeeds
  FillPos = {5, 9}
  MaxMembers = 3
  MaxDepth = 5
  Ops <- MCOps
CHECK_DEADLOCK FALSE
INVARIANT SharedBins
INVARIANT SumIsSum
INVARIANT NormAllLaw
INVARIANT NormBinsLaw
PROPERTY Independence
PROPERTY RefusalIsNoOp
