SPECIFICATION Spec
CONSTANTS
  Ids <- MCIds
  Seeds <- MCSeeds
  Ops <- MCOps
  Scalars <- MCScalars
  FillPos = {3}
  FillW = {1}
  SetDtypes = {"f8"}
  SliceArgs <- MCSliceArgs
  MergeArgs = {2}
  TakeArgs <- MCTakeArgs
  EdgeVals = {2, 4, 6, 8, 10, 16}
  MinFreqs = {2}
  MaxDepth = 3
  MaxVal = 8
CHECK_DEADLOCK FALSE
INVARIANT WellFormed
INVARIANT SliceLaws
PROPERTY Independence
PROPERTY RefusalIsNoOp
