SPECIFICATION Spec
CONSTANTS
  Layouts1 <- MCLayouts1
  Contents <- MCContents
  Layouts2 <- MCLayouts2
  REdges <- MCREdges
  ZEdges <- MCZEdges
  NPhi = 4
  NTheta = 1
  Classes = {"polar", "radial", "azimuthal", "spherical", "sphsurf", "cylindrical", "cylsurf"}
  MergeAmounts = {1, 2, 3}
  MaxDepth = 1
CHECK_DEADLOCK FALSE
INVARIANT TotalMeasure
INVARIANT AdditiveUnderMerge
INVARIANT CumulativeEndsAtTotal
