SPECIFICATION Spec
CONSTANTS
  Dims = {1}
  Indices <- MCIndices
  Classes = {"M"}
  Weights = {1}
  Prefills <- MCPrefills
  Batches <- MCBatches
  Ids = {1, 2}
  Ops = {"CollCreate", "CollFill", "CollFillN"}
  MaxDepth = 3
CHECK_DEADLOCK FALSE
INVARIANT NothingMissed
INVARIANT EqualsFixed
PROPERTY ContentsStayPut
