--------------------------- MODULE PhystBinnings ---------------------------
(***************************************************************************)
(* Binning schemas (C07).                                                  *)
(*                                                                         *)
(* Part A - one binning object made from an explicit bin array: its three  *)
(* representations (pairs, edges, masked edges), bin_count, first/last     *)
(* edge, is_consecutive, is_regular, copy(), == and slicing must agree;    *)
(* invalid arrays are refused.                                             *)
(*                                                                         *)
(* Part B - the rules by which binnings are derived from data: numpy-style *)
(* (lo + i*(hi-lo)/n as exact rationals), pretty widths ({1,2,2.5,5}*10^k  *)
(* nearest to range/bin_count in log scale, by cross-multiplication),      *)
(* integer bins, quantiles (linear interpolation of order statistics),     *)
(* exponential bins on integer logs, ideal bin counts as least-k           *)
(* definitions.  The results are parameters of the actions, so that the    *)
(* transition labels carry the expected outcome.                           *)
(***************************************************************************)
EXTENDS PhystCore, TLC

CONSTANTS BinArrays,     \* valid bin arrays (sequences of pairs, rising, possibly gapped)
          BadArrays,     \* invalid ones: unsorted, overlapping, empty width
          SliceArgs,     \* <<start, stop>> with NoneIx
          NumpyArgs,     \* set of <<lo, hi, n>>
          PrettyArgs,    \* set of <<min, max, count>> (lattice units)
          QuantArgs,     \* set of <<sorted data seq, n>>
          ExpArgs,       \* set of <<logmin, logmax, n>>
          CountArgs,     \* set of sample sizes for ideal_bin_count
          Ops, MaxDepth

VARIABLES b,             \* current binning record or Null
          calls
vars == <<b, calls>>
Null == [null |-> TRUE]
NoneIx == -99
Live == calls < MaxDepth /\ calls' = calls + 1
On(op) == op \in Ops

---------------------------------------------------------------------------
(* Part A *)
Edges(bins) == <<Left(bins[1])>> \o [i \in 1..Len(bins) |-> Right(bins[i])]

(* edges including the gaps + indices (0-based) of the real bins among the edge intervals *)
RECURSIVE MaskedEdgesFrom(_, _)
MaskedEdgesFrom(bins, i) ==
    IF i > Len(bins) THEN <<>>
    ELSE IF i < Len(bins) /\ Right(bins[i]) # Left(bins[i + 1])
         THEN <<Right(bins[i]), Left(bins[i + 1])>> \o MaskedEdgesFrom(bins, i + 1)
         ELSE <<Right(bins[i])>> \o MaskedEdgesFrom(bins, i + 1)
MaskedEdges(bins) == <<Left(bins[1])>> \o MaskedEdgesFrom(bins, 1)
GapsBefore(bins, i) == Cardinality({j \in 1..(i - 1) : Right(bins[j]) # Left(bins[j + 1])})
Mask(bins) == [i \in 1..Len(bins) |-> (i - 1) + GapsBefore(bins, i)]

Regular(bins) == \A i \in 1..Len(bins) : Right(bins[i]) - Left(bins[i]) = Right(bins[1]) - Left(bins[1])

Rec(bins, kind, approx) ==
    [bins |-> bins, kind |-> kind, approx |-> approx,     \* approx: edges were recomputed from a fixed-width recipe (equal up to rounding)
     count |-> Len(bins),
     first |-> FirstEdge(bins), last |-> LastEdge(bins),
     consecutive |-> Consecutive(bins), regular |-> Regular(bins),
     masked |-> MaskedEdges(bins), mask |-> Mask(bins)]

ClampIx(n, i, dflt) == IF i = NoneIx THEN dflt ELSE IF i < 0 THEN Max2(n + i, 0) ELSE Min2(i, n)

Init == b = Null /\ calls = 0

(* StaticBinning(pairs) / NumpyBinning(edges) / as_binning(array) *)
Make(bins, kind) ==
    /\ Live /\ On("Make") /\ b = Null
    /\ kind = "numpy" => Consecutive(bins)
    /\ b' = Rec(bins, kind, FALSE)

(* unsorted, overlapping or empty-width specifications must be refused *)
MakeRefused(bins, kind) ==
    /\ Live /\ On("MakeRefused") /\ b = Null
    /\ kind = "numpy" => (\E i \in 1..Len(Edges(bins)) - 1 : Edges(bins)[i] >= Edges(bins)[i + 1])
    /\ UNCHANGED b

(* b = b.copy(); the copy is == to the original *)
Copy ==
    /\ Live /\ On("Copy") /\ b # Null
    /\ UNCHANGED b

(* b = b[start:stop] (non-empty) *)
Slice(start, stop) ==
    /\ Live /\ On("Slice") /\ b # Null
    /\ LET n == Len(b.bins) lo == ClampIx(n, start, 0) hi == ClampIx(n, stop, n) IN
         /\ lo < hi
         /\ b' = Rec(SubSeq(b.bins, lo + 1, hi), "static", b.approx)

(* b == other for a binning made from bins2: equal iff the bins are equal *)
EqCheck(bins2, result) ==
    /\ Live /\ On("EqCheck") /\ b # Null
    /\ result = (bins2 = b.bins)
    /\ UNCHANGED b

(* b.as_static() keeps the bins; b.as_fixed_width() is possible iff consecutive and regular (or a single bin) *)
AsStatic ==
    /\ Live /\ On("AsStatic") /\ b # Null
    /\ b' = Rec(b.bins, "static", b.approx)

AsFixedWidth(possible) ==
    /\ Live /\ On("AsFixedWidth") /\ b # Null
    /\ possible = (Len(b.bins) = 1 \/ (Consecutive(b.bins) /\ Regular(b.bins)))
    /\ b' = IF possible THEN Rec(b.bins, "fixed", TRUE) ELSE b

---------------------------------------------------------------------------
(* Part B: rules.  Rationals are pairs <<num, den>>, den > 0. *)

(* numpy-style: n equal bins between lo and hi: edge i = (lo*n + i*(hi-lo)) / n *)
NumpyEdges(lo, hi, n) == [i \in 1..(n + 1) |-> <<lo * n + (i - 1) * (hi - lo), n>>]
NumpyRule(lo, hi, n, edges) ==
    /\ Live /\ On("NumpyRule") /\ b = Null /\ lo < hi /\ n >= 1
    /\ edges = NumpyEdges(lo, hi, n)
    /\ UNCHANGED b

(* pretty width: candidates m * 10^p, m in {1, 2, 2.5, 5}; all widths are written in units of 1/20 *)
PrettyFamily == {m * 10^p : m \in {2, 4, 5, 10}, p \in 0..2}     \* {1, 2, 2.5, 5} * 10^(p-1) in units of 1/20: widths 0.1 .. 50
(* raw = (max - min) / count in units of 1/20: the rational <<20*(max-min), count>> *)
(* distance in log scale: c is at least as good as d iff  max(c/raw, raw/c) <= max(d/raw, raw/d) *)
Ratio(c, num, den) == IF c * den >= num THEN <<c * den, num>> ELSE <<num, c * den>>    \* >= 1 as a rational
LeqRat(x, y) == x[1] * y[2] <= y[1] * x[2]
BestPretty(num, den) == {c \in PrettyFamily : \A d \in PrettyFamily : LeqRat(Ratio(c, num, den), Ratio(d, num, den))}
PrettyRule(mn, mx, count, widths20) ==
    /\ Live /\ On("PrettyRule") /\ b = Null /\ mn < mx /\ count >= 1
    /\ widths20 = BestPretty(20 * (mx - mn), count)       \* a tie leaves the choice open
    /\ UNCHANGED b

(* quantiles with linear interpolation: q = i/n of sorted data x (1-based), pos = (i*(m-1))/n *)
QuantileEdge(x, i, n) ==
    LET m == Len(x)
        t == i * (m - 1)
        j == t \div n
        r == t % n
    IN  IF j + 1 >= m THEN <<x[m] * n, n>> ELSE <<x[j + 1] * n + r * (x[j + 2] - x[j + 1]), n>>
QuantileRule(x, n, edges) ==
    /\ Live /\ On("QuantileRule") /\ b = Null
    /\ edges = [i \in 1..(n + 1) |-> QuantileEdge(x, i - 1, n)]
    /\ \A i \in 1..n : edges[i][1] < edges[i + 1][1]          \* strictly rising (same denominator)
    /\ UNCHANGED b

(* exponential bins between 10^a and 10^c with n | (c - a): edges 10^(a + i*(c-a)/n) *)
ExpRule(a, c, n, logs) ==
    /\ Live /\ On("ExpRule") /\ b = Null /\ a < c /\ (c - a) % n = 0
    /\ logs = [i \in 1..(n + 1) |-> a + (i - 1) * ((c - a) \div n)]
    /\ UNCHANGED b

(* ideal bin counts as least-k definitions *)
Least(P(_)) == CHOOSE k \in 0..200 : P(k) /\ \A j \in 0..(k - 1) : ~P(j)
Sturges(n) == 1 + Least(LAMBDA k : 2^k >= n)
SqrtRule(n) == Least(LAMBDA k : k * k >= n)
Rice(n) == Least(LAMBDA k : k * k * k >= 8 * n)
DefaultRule(n) == IF n <= 32 THEN 7 ELSE Sturges(n)
CountRule(n, st, sq, ri, df) ==
    /\ Live /\ On("CountRule") /\ b = Null /\ n >= 1
    /\ st = Sturges(n) /\ sq = SqrtRule(n) /\ ri = Rice(n) /\ df = DefaultRule(n)
    /\ UNCHANGED b

Next ==
    \/ \E bins \in BinArrays, kind \in {"static", "numpy", "array"} : Make(bins, kind)
    \/ \E bins \in BadArrays, kind \in {"static", "numpy", "array"} : MakeRefused(bins, kind)
    \/ Copy \/ AsStatic
    \/ \E ab \in SliceArgs : Slice(ab[1], ab[2])
    \/ \E bins2 \in BinArrays, r \in BOOLEAN : EqCheck(bins2, r)
    \/ \E p \in BOOLEAN : AsFixedWidth(p)
    \/ \E a \in NumpyArgs : \E e \in {NumpyEdges(a[1], a[2], a[3])} : NumpyRule(a[1], a[2], a[3], e)
    \/ \E a \in PrettyArgs : \E ws \in {BestPretty(20 * (a[2] - a[1]), a[3])} : PrettyRule(a[1], a[2], a[3], ws)
    \/ \E a \in QuantArgs : \E e \in {[i \in 1..(a[2] + 1) |-> QuantileEdge(a[1], i - 1, a[2])]} : QuantileRule(a[1], a[2], e)
    \/ \E a \in ExpArgs : \E lg \in {[i \in 1..(a[3] + 1) |-> a[1] + (i - 1) * ((a[2] - a[1]) \div a[3])]} : ExpRule(a[1], a[2], a[3], lg)
    \/ \E n \in CountArgs : \E st \in {Sturges(n)}, sq \in {SqrtRule(n)}, ri \in {Rice(n)}, df \in {DefaultRule(n)} : CountRule(n, st, sq, ri, df)

Spec == Init /\ [][Next]_vars

---------------------------------------------------------------------------
(* C07: the representations of one binning agree with one another. *)
RepresentationsAgree ==
    b # Null =>
        /\ Rising(b.bins)
        /\ b.count = Len(b.bins) /\ b.first = Left(b.bins[1]) /\ b.last = Right(b.bins[Len(b.bins)])
        /\ (b.consecutive => Len(b.masked) = b.count + 1 /\ b.masked = Edges(b.bins))
        /\ Len(b.mask) = b.count
        /\ \A i \in 1..b.count : b.masked[b.mask[i] + 1] = Left(b.bins[i]) /\ b.masked[b.mask[i] + 2] = Right(b.bins[i])
        /\ \A i \in 1..(Len(b.masked) - 1) : b.masked[i] < b.masked[i + 1]
        /\ (b.regular <=> Cardinality({Right(b.bins[i]) - Left(b.bins[i]) : i \in 1..b.count}) = 1)

(* C07: numpy-style edges start at lo, end at hi and are equally spaced. *)
NumpyLaws ==
    \A a \in NumpyArgs :
        LET e == NumpyEdges(a[1], a[2], a[3]) IN
        /\ e[1][1] = a[1] * a[3] /\ e[a[3] + 1][1] = a[2] * a[3]
        /\ \A i \in 1..a[3] : e[i + 1][1] - e[i][1] = a[2] - a[1]

(* C07: quantile edges start at the minimum and end at the maximum of the data. *)
QuantLaws ==
    \A a \in QuantArgs :
        /\ QuantileEdge(a[1], 0, a[2])[1] = a[1][1] * a[2]
        /\ QuantileEdge(a[1], a[2], a[2])[1] = a[1][Len(a[1])] * a[2]

(* C07: the least-k definitions satisfy their defining inequalities. *)
CountLaws ==
    \A n \in CountArgs :
        /\ 2^(Sturges(n) - 1) >= n /\ (Sturges(n) >= 2 => 2^(Sturges(n) - 2) < n)
        /\ SqrtRule(n) * SqrtRule(n) >= n /\ (SqrtRule(n) - 1) * (SqrtRule(n) - 1) < n
        /\ Rice(n) * Rice(n) * Rice(n) >= 8 * n
=============================================================================
