------------------------------ MODULE PhystGeom ------------------------------
(***************************************************************************)
(* Densities, bin geometry and cumulative values (C16).                    *)
(*                                                                         *)
(* Bin measures are exact: a measure is <<num, den, k>> = num/den * pi^k.  *)
(* Plain histograms: width (1-D), product of widths (N-D).  Transformed    *)
(* classes over integer radial edges, NPhi equal phi sectors of [0, 2 pi]  *)
(* and NTheta in {1, 2} equal theta sectors of [0, pi] (cosines 1, 0, -1): *)
(*   polar        (r2^2 - r1^2)/2 * dphi                                   *)
(*   radial       pi * (r2^2 - r1^2)                                       *)
(*   spherical    (r2^3 - r1^3)/3 * (cos th1 - cos th2) * dphi             *)
(*   sphere surf. (cos th1 - cos th2) * dphi                               *)
(*   cylindrical  (rho2^2 - rho1^2)/2 * dphi * dz                          *)
(*   cyl. surface dphi * dz                                                *)
(* The expected tables are parameters of the actions (labels carry them).  *)
(***************************************************************************)
EXTENDS PhystCore, TLC

CONSTANTS Layouts1,      \* 1-D bin arrays (irregular, gapped)
          Contents,      \* function: layout -> sequence of contents (same length)
          Layouts2,      \* pairs of consecutive bin arrays
          REdges, ZEdges, NPhi, NTheta,
          Classes, MergeAmounts, MaxDepth

VARIABLES done, calls
vars == <<done, calls>>
Live == calls < MaxDepth /\ calls' = calls + 1

Widths(L) == [i \in 1..Len(L) |-> Right(L[i]) - Left(L[i])]
Centers2(L) == [i \in 1..Len(L) |-> Left(L[i]) + Right(L[i])]      \* twice the centre
CumSum(s) == [i \in 1..Len(s) |-> SumSeq(SubSeq(s, 1, i))]

(* plain 1-D: widths, centres, total width (gaps excluded), cumulative frequencies; densities[i]*width[i] = content[i] *)
Geometry1D(L, widths, centers2, total, cum) ==
    /\ Live /\ widths = Widths(L) /\ centers2 = Centers2(L) /\ total = SumSeq(Widths(L)) /\ cum = CumSum(Contents[L])
    /\ UNCHANGED done

(* plain 2-D: bin_sizes = outer product of the widths *)
Geometry2D(LL, sizes, total) ==
    /\ Live
    /\ sizes = [i \in 1..Len(LL[1]) |-> [j \in 1..Len(LL[2]) |-> Widths(LL[1])[i] * Widths(LL[2])[j]]]
    /\ total = SumSeq(Widths(LL[1])) * SumSeq(Widths(LL[2]))
    /\ UNCHANGED done

NR == Len(REdges) - 1
NZ == Len(ZEdges) - 1
R2(i) == REdges[i + 1] * REdges[i + 1] - REdges[i] * REdges[i]
R3(i) == REdges[i + 1] * REdges[i + 1] * REdges[i + 1] - REdges[i] * REdges[i] * REdges[i]
DZ(k) == ZEdges[k + 1] - ZEdges[k]
CosDiff2 == 2 \div NTheta       \* cos th1 - cos th2 for each of NTheta in {1, 2} equal sectors: 2 or 1

(* measure tables as sequences (row-major nested sequences) of <<num, den, pi-power>> *)
MPolar == [i \in 1..NR |-> [j \in 1..NPhi |-> <<R2(i), NPhi, 1>>]]
MRadial == [i \in 1..NR |-> <<R2(i), 1, 1>>]
MAzimuthal == [j \in 1..NPhi |-> <<2, NPhi, 1>>]
MSpherical == [i \in 1..NR |-> [t \in 1..NTheta |-> [j \in 1..NPhi |-> <<2 * R3(i) * CosDiff2, 3 * NPhi, 1>>]]]
MSphSurf == [t \in 1..NTheta |-> [j \in 1..NPhi |-> <<2 * CosDiff2, NPhi, 1>>]]
MCylindrical == [i \in 1..NR |-> [j \in 1..NPhi |-> [k \in 1..NZ |-> <<R2(i) * DZ(k), NPhi, 1>>]]]
MCylSurf == [j \in 1..NPhi |-> [k \in 1..NZ |-> <<2 * DZ(k), NPhi, 1>>]]

TableOf(cls) ==
    CASE cls = "polar" -> MPolar [] cls = "radial" -> MRadial [] cls = "azimuthal" -> MAzimuthal
      [] cls = "spherical" -> MSpherical [] cls = "sphsurf" -> MSphSurf [] cls = "cylindrical" -> MCylindrical
      [] cls = "cylsurf" -> MCylSurf

Measures(cls, table) ==
    /\ Live /\ table = TableOf(cls) /\ UNCHANGED done

Init == done = FALSE /\ calls = 0
Next ==
    \/ \E L \in Layouts1 : \E w \in {Widths(L)}, c \in {Centers2(L)}, t \in {SumSeq(Widths(L))}, cs \in {CumSum(Contents[L])} : Geometry1D(L, w, c, t, cs)
    \/ \E LL \in Layouts2 : \E s \in {[i \in 1..Len(LL[1]) |-> [j \in 1..Len(LL[2]) |-> Widths(LL[1])[i] * Widths(LL[2])[j]]]},
                               t \in {SumSeq(Widths(LL[1])) * SumSeq(Widths(LL[2]))} : Geometry2D(LL, s, t)
    \/ \E cls \in Classes : \E tb \in {TableOf(cls)} : Measures(cls, tb)
Spec == Init /\ [][Next]_vars

---------------------------------------------------------------------------
(* C16: measures sum to the measure of the covered region. *)
Rmax == REdges[NR + 1]
Rmin == REdges[1]
TotalMeasure ==
    /\ SumOver(1..NR, LAMBDA i : NPhi * R2(i)) = NPhi * (Rmax * Rmax - Rmin * Rmin)            \* polar: pi (R^2 - r^2) = sum of R2(i)/NPhi * NPhi
    /\ SumOver(1..NR, LAMBDA i : R2(i)) = Rmax * Rmax - Rmin * Rmin                            \* radial: pi R^2 for Rmin = 0
    /\ NTheta * NPhi * 2 * CosDiff2 = 4 * NPhi                                                 \* sphere surface: 4 pi
    /\ SumOver(1..NR, LAMBDA i : NTheta * NPhi * 2 * R3(i) * CosDiff2) = 4 * NPhi * (Rmax * Rmax * Rmax - Rmin * Rmin * Rmin)   \* 4/3 pi R^3 (times 3 NPhi)

(* C16: bin measures are additive when adjacent bins are merged (radial direction, any amount). *)
AdditiveUnderMerge ==
    \A a \in MergeAmounts : \A j \in 1..((NR + a - 1) \div a) :
        LET lo == (j - 1) * a + 1  hi == Min2(j * a, NR) IN
        /\ SumOver(lo..hi, LAMBDA i : R2(i)) = REdges[hi + 1] * REdges[hi + 1] - REdges[lo] * REdges[lo]
        /\ SumOver(lo..hi, LAMBDA i : R3(i)) = REdges[hi + 1] * REdges[hi + 1] * REdges[hi + 1] - REdges[lo] * REdges[lo] * REdges[lo]

(* C16: the running sum ends at the total. *)
CumulativeEndsAtTotal ==
    \A L \in Layouts1 : CumSum(Contents[L])[Len(L)] = SumSeq(Contents[L])
=============================================================================
