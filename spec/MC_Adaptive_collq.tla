---------------------------- MODULE MC_Adaptive_collq ----------------------------
(* members of a HistogramCollection over one adaptive fixed-width binning: 1-D histograms created and filled one after another *)
EXTENDS PhystAdaptive
MCIndices == {-1, 0, 2}
C1(k) == <<k>>
MCPrefills == { << <<C1(0), "M", 1>> >>, << <<C1(0), "M", 1>>, <<C1(1), "M", 1>> >>, << <<C1(3), "M", 2>> >> }
MCBatches == { << <<C1(-2), "M", 1>>, <<C1(0), "M", 1>> >>, << <<C1(1), "M", 1>> >> }
=============================================================================
