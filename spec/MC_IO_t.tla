------------------------------- MODULE MC_IO_t -------------------------------
EXTENDS PhystIO
\* binning descriptors: type + recipe in lattice positions (edges) or grid indices (fixed width) or logs (exponential)
S(edges) == [type |-> "static", edges |-> edges, adaptive |-> FALSE]
SG(pairs) == [type |-> "static_pairs", edges |-> pairs, adaptive |-> FALSE]
N(edges) == [type |-> "numpy", edges |-> edges, adaptive |-> FALSE]
F(tmin, count, grid, ad) == [type |-> "fixed", edges |-> <<tmin, count, grid>>, adaptive |-> ad]
X(a, w, n) == [type |-> "exp", edges |-> <<a, w, n>>, adaptive |-> FALSE]
H(cls, bs, f, e, dt, m, keep, name, title, axes, custom) ==
    [cls |-> cls, binnings |-> bs, freq |-> f, err2 |-> e, dtype |-> dt, missed |-> m, keep |-> keep,
     name |-> name, title |-> title, axes |-> axes, custom |-> custom]
NaNv == -99999
H1a == H("Histogram1D", <<S(<<2, 4, 6, 10>>)>>, <<1, 0, 3>>, <<1, 0, 3>>, "i8", <<2, 1, 0>>, TRUE, 1, 0, <<1>>, 0)
H1b == H("Histogram1D", <<SG(<< <<2, 4>>, <<6, 8>> >>)>>, <<3, 5>>, <<9, 7>>, "f8", <<NaNv, NaNv, 1>>, TRUE, 2, 2, <<0>>, 1)
H1c == H("Histogram1D", <<N(<<0, 2, 4>>)>>, <<2, 2>>, <<2, 2>>, "i4", <<0, 0, 0>>, FALSE, 0, 0, <<2>>, 2)
H1d == H("Histogram1D", <<F(-2, 3, 1, TRUE)>>, <<1, 2, 3>>, <<1, 4, 9>>, "f4", <<0, 0, 0>>, TRUE, 1, 1, <<1>>, 0)
H1e == H("Histogram1D", <<F(3, 2, 2, FALSE)>>, <<5, 6>>, <<5, 6>>, "i2", <<1, 0, 0>>, TRUE, 0, 0, <<0>>, 3)
H1f == H("Histogram1D", <<X(0, 1, 3)>>, <<1, 2, 3>>, <<1, 2, 3>>, "f8", <<0, 4, 0>>, TRUE, 3, 0, <<1>>, 0)
H2a == H("Histogram2D", <<S(<<2, 4, 6>>), N(<<0, 2, 6, 8>>)>>, <<1, 2, 3, 4, 5, 6>>, <<1, 2, 3, 4, 5, 7>>, "i8", <<3>>, TRUE, 1, 0, <<1, 2>>, 0)
H2b == H("Histogram2D", <<F(0, 2, 1, TRUE), F(-1, 1, 2, TRUE)>>, <<1, 2>>, <<1, 2>>, "f8", <<0>>, FALSE, 0, 2, <<0, 0>>, 1)
H3a == H("HistogramND", <<S(<<2, 4>>), S(<<2, 4, 6>>), SG(<< <<0, 2>>, <<4, 6>> >>)>>, <<1, 2, 3, 4>>, <<1, 2, 3, 4>>, "f8", <<5>>, TRUE, 2, 0, <<1, 2, 3>>, 2)
Pol == H("PolarHistogram", <<S(<<0, 2, 4>>), N(<<0, 2, 4>>)>>, <<1, 2, 3, 4>>, <<1, 2, 3, 4>>, "i8", <<1>>, TRUE, 1, 0, <<0, 0>>, 0)
Rad == H("RadialHistogram", <<S(<<0, 2, 4>>)>>, <<1, 2>>, <<1, 2>>, "i8", <<0, 1, 0>>, TRUE, 1, 0, <<0>>, 0)
Azi == H("AzimuthalHistogram", <<N(<<0, 2, 4>>)>>, <<1, 2>>, <<1, 2>>, "f8", <<0, 0, 0>>, TRUE, 0, 0, <<0>>, 4)
Sph == H("SphericalHistogram", <<S(<<0, 2>>), S(<<0, 2, 4>>), S(<<0, 4>>)>>, <<1, 2>>, <<1, 2>>, "i8", <<0>>, TRUE, 1, 0, <<0, 0, 0>>, 0)
SpS == H("SphericalSurfaceHistogram", <<S(<<0, 2, 4>>), S(<<0, 4>>)>>, <<1, 2>>, <<1, 2>>, "i8", <<2>>, TRUE, 1, 0, <<0, 0>>, 4)
Cyl == H("CylindricalHistogram", <<S(<<0, 2>>), S(<<0, 2, 4>>), S(<<0, 4>>)>>, <<1, 2>>, <<1, 2>>, "f8", <<0>>, TRUE, 0, 0, <<0, 0, 0>>, 0)
CyS == H("CylindricalSurfaceHistogram", <<S(<<0, 2, 4>>), S(<<0, 4>>)>>, <<1, 2>>, <<1, 2>>, "i8", <<0>>, TRUE, 1, 0, <<0, 0>>, 4)
H1g == H("Histogram1D", <<S(<<2, 4, 6>>)>>, <<4, 5>>, <<4, 5>>, "i8", <<0, 0, 0>>, TRUE, 1, 0, <<1>>, 5)
H2c == H("Histogram2D", <<S(<<2, 4>>), S(<<0, 2, 6>>)>>, <<1, 2>>, <<1, 2>>, "f8", <<0>>, TRUE, 0, 0, <<0, 0>>, 5)
H2d == H("Histogram2D", <<S(<<2, 4, 6>>), S(<<0, 2>>)>>, <<1, 2>>, <<1, 2>>, "i8", <<3>>, FALSE, 1, 0, <<0, 0>>, 0)
Col == [cls |-> "collection", members |-> <<H1a, H("Histogram1D", <<S(<<2, 4, 6, 10>>)>>, <<0, 7, 1>>, <<0, 7, 1>>, "i8", <<0, 0, 0>>, TRUE, 2, 0, <<1>>, 0)>>]
\* members over equal fixed-width bins whose binnings differ in the adaptive flag only
Col2 == [cls |-> "collection", members |-> <<H("Histogram1D", <<F(0, 2, 1, TRUE)>>, <<1, 2>>, <<1, 2>>, "i8", <<0, 0, 0>>, TRUE, 1, 0, <<1>>, 0),
                                             H("Histogram1D", <<F(0, 2, 1, FALSE)>>, <<3, 0>>, <<3, 0>>, "i8", <<0, 1, 0>>, TRUE, 2, 0, <<1>>, 0)>>]
MCSubjects == {Col2, H2d, H1g, H2c, H1a, H1b, H1c, H1d, H1e, H1f, H2a, H2b, H3a, Pol, Rad, Azi, Sph, SpS, Cyl, CyS, Col}
MCCurrent == <<0, 8, 4>>
MCVersions == {<<a, b, c>> : a \in {0, 1, 2}, b \in {0, 7, 8, 9, 10}, c \in {0, 3, 4, 5, 20}}
=============================================================================
