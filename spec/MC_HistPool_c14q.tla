---------------------------- MODULE MC_HistPool_c14q ----------------------------
EXTENDS HistPool
LA == << <<2, 4>>, <<4, 6>>, <<6, 10>> >>
MCSeeds == {
  [L |-> LA, keep |-> TRUE,  batch |-> << <<3, 1>>, <<5, 1>>, <<9, 1>> >>, weighted |-> FALSE, dtype |-> "i8", den |-> 1, name |-> 1],
  [L |-> LA, keep |-> TRUE,  batch |-> << <<2, 1>>, <<10, 3>> >>, weighted |-> TRUE,  dtype |-> "f8", den |-> 2, name |-> 1],
  [L |-> LA, keep |-> TRUE,  batch |-> << >>, weighted |-> FALSE, dtype |-> "i8", den |-> 1, name |-> 1],
  [L |-> LA, keep |-> TRUE,  batch |-> << <<7, 2>> >>, weighted |-> TRUE, dtype |-> "i8", den |-> 1, name |-> 1]
}
MCIds == 1..2
MCOps == {"New", "Add", "IAdd", "Copy", "CopyEmpty", "Mul", "IMul", "Div", "Sub", "Fill", "Normalize", "NegRefused", "ForeignRefused", "DivZeroRefused"}
MCSliceArgs == {<<1, NoneIx>>}
MCTakeArgs == {<<0>>}
MCScalars == {<<2, 1, "pyint">>, <<1, 2, "pyfloat">>, <<3, 1, "pyint">>}
=============================================================================
