SPECIFICATION Spec
CONSTANTS
  Subjects <- MCSubjects
  Versions <- MCVersions
  Current <- MCCurrent
  MaxDepth = 5
CHECK_DEADLOCK FALSE
INVARIANT RoundTrip
INVARIANT Idempotent
