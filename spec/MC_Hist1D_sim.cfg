SPECIFICATION Spec
CONSTANTS
  Layouts <- MCLayouts
  Positions <- MCPositions
  Weights <- MCWeights
  UBatches <- MCUBatches
  WBatches <- MCWBatches
  MaxDepth = 7
CHECK_DEADLOCK FALSE
INVARIANT BinContents
INVARIANT SquaredErrors
INVARIANT Accounting
INVARIANT GapCountsNowhere
INVARIANT LastBinRightClosed
INVARIANT EntryPathIrrelevant
INVARIANT NoKeepNoChange
INVARIANT RawStatistics
INVARIANT AllInMeansAllIn
INVARIANT Shapes
PROPERTY FindBinPure
