--------------------------- MODULE TraceAdaptive ---------------------------
(***************************************************************************)
(* Engine T for C04: validates executions RECORDED from the real code      *)
(* (random fill / fill_n programs on raw floats) against PhystAdaptive.    *)
(* Each line of the ndjson trace is one public call with its abstract      *)
(* arguments (true float-grid cells of the values, computed by exact       *)
(* comparison against the edges) and the abstract state observed after it. *)
(* A "new" event starts a fresh histogram, so one TLC run validates        *)
(* thousands of programs.                                                  *)
(***************************************************************************)
EXTENDS PhystAdaptive, Json, IOUtils

Trace == ndJsonDeserialize(IOEnv.TRACE_FILE)

VARIABLE l
tvars == <<pool, ghost, calls, l>>


AxesOf(ev) == [a \in 1..Len(ev.axes) |-> [tmin |-> ev.axes[a][1], count |-> ev.axes[a][2], grid |-> a]]
ContOf(ev) == {<<t[1], t[2], t[3]>> : t \in {ev.cont[i] : i \in 1..Len(ev.cont)}}
BatchOf(ev) == [i \in 1..Len(ev.cells) |-> <<ev.cells[i], "M", ev.ws[i]>>]

Matches(ev) ==
    /\ pool'[1].axes = AxesOf(ev)
    /\ pool'[1].cont = ContOf(ev)
    /\ ev.missed = 0

TraceInit == Init /\ l = 1

TraceNew ==
    /\ Trace[l].op = "new"
    /\ pool' = [pool EXCEPT ![1] = Empty(Trace[l].dim)]
    /\ ghost' = [ghost EXCEPT ![1] = {}]
    /\ calls' = 0
    /\ Matches(Trace[l])

(* h1(data, "fixed_width" | "pretty" | "integer", ...) (adaptive or not): the bins must cover the data tightly *)
TraceConstruct ==
    /\ Trace[l].op = "construct"
    /\ pool' = [pool EXCEPT ![1] = DepositAll(Empty(Trace[l].dim), BatchOf(Trace[l]))]
    /\ ghost' = [ghost EXCEPT ![1] = GAddAll({}, BatchOf(Trace[l]))]
    /\ calls' = 0
    /\ Matches(Trace[l])

TraceFill ==
    /\ Trace[l].op = "fill"
    /\ Fill(1, Trace[l].cells[1], "M", Trace[l].ws[1])
    /\ Matches(Trace[l])

TraceFillN ==
    /\ Trace[l].op = "filln"
    /\ FillN(1, BatchOf(Trace[l]))
    /\ Matches(Trace[l])

TraceNext ==
    /\ l <= Len(Trace)
    /\ l' = l + 1
    /\ (TraceNew \/ TraceConstruct \/ TraceFill \/ TraceFillN)

TraceSpec == TraceInit /\ [][TraceNext]_tvars
=============================================================================
