---------------------------- MODULE PhystConfig ----------------------------
(***************************************************************************)
(* The free-arithmetics switch of physt.config (C19).                      *)
(*                                                                         *)
(* Executions are threads or asyncio tasks.  Each has its own context      *)
(* value (Unset = "falls back to the process default taken from            *)
(* PHYST_FREE_ARITHMETICS").  enable_free_arithmetics(v) is a context      *)
(* manager: Enter saves the previous value, Exit / Raise restore it, also  *)
(* when the body raises through several nested blocks.  A new thread       *)
(* starts from the default; a new task starts from a copy of its           *)
(* creator's context.  All interleavings of the executions are explored.   *)
(*                                                                         *)
(* The history variable exp[e] is computed from e's OWN actions only       *)
(* (plus what it inherited when spawned): Isolation says the value an      *)
(* execution observes is always exp[e], whatever the others do.            *)
(***************************************************************************)
EXTENDS Integers, Sequences, FiniteSets, TLC

CONSTANTS Execs,        \* e.g. {"main", "a", "b"}
          Root,         \* the execution that exists initially
          Kind,         \* "thread" or "task": how new executions are spawned
          Default,      \* BOOLEAN: the process default (environment)
          MaxNest, MaxDepth

VARIABLES ctx,          \* [Execs -> "unset" | "on" | "off"]
          stack,        \* [Execs -> Seq(saved ctx values)] (tokens of the open with-blocks)
          alive,        \* [Execs -> "new" | "run" | "done"]
          exp,          \* history: [Execs -> Seq(BOOLEAN)], last element = value the execution must observe
          calls

vars == <<ctx, stack, alive, exp, calls>>

Live == calls < MaxDepth /\ calls' = calls + 1
B2S(b) == IF b THEN "on" ELSE "off"
ValueOf(c) == IF c = "unset" THEN Default ELSE c = "on"
Value(e) == ValueOf(ctx[e])
Last(s) == s[Len(s)]
SetLast(s, v) == [s EXCEPT ![Len(s)] = v]

Init ==
    /\ ctx = [e \in Execs |-> "unset"]
    /\ stack = [e \in Execs |-> <<>>]
    /\ alive = [e \in Execs |-> IF e = Root THEN "run" ELSE "new"]
    /\ exp = [e \in Execs |-> <<Default>>]
    /\ calls = 0

Running(e) == alive[e] = "run"

(* with config.enable_free_arithmetics(v): ... *)
Enter(e, v) ==
    /\ Live /\ Running(e) /\ Len(stack[e]) < MaxNest
    /\ stack' = [stack EXCEPT ![e] = Append(@, ctx[e])]
    /\ ctx' = [ctx EXCEPT ![e] = B2S(v)]
    /\ exp' = [exp EXCEPT ![e] = Append(@, v)]
    /\ UNCHANGED alive

(* leaving the innermost with-block normally *)
Exit(e) ==
    /\ Live /\ Running(e) /\ Len(stack[e]) > 0
    /\ ctx' = [ctx EXCEPT ![e] = Last(stack[e])]
    /\ stack' = [stack EXCEPT ![e] = SubSeq(@, 1, Len(@) - 1)]
    /\ exp' = [exp EXCEPT ![e] = SubSeq(@, 1, Len(@) - 1)]
    /\ UNCHANGED alive

(* an exception raised in the body unwinds k >= 1 nested with-blocks; kind "exc" is an ordinary Exception, *)
(* "base" one that does not derive from Exception (KeyboardInterrupt, SystemExit, asyncio.CancelledError)  *)
Raise(e, k, kind) ==
    /\ Live /\ Running(e) /\ k >= 1 /\ k <= Len(stack[e])
    /\ ctx' = [ctx EXCEPT ![e] = stack[e][Len(stack[e]) - k + 1]]
    /\ stack' = [stack EXCEPT ![e] = SubSeq(@, 1, Len(@) - k)]
    /\ exp' = [exp EXCEPT ![e] = SubSeq(@, 1, Len(@) - k)]
    /\ UNCHANGED alive

(* config.free_arithmetics = v *)
SetDirect(e, v) ==
    /\ Live /\ Running(e)
    /\ ctx' = [ctx EXCEPT ![e] = B2S(v)]
    /\ exp' = [exp EXCEPT ![e] = SetLast(@, v)]
    /\ UNCHANGED <<stack, alive>>

(* p starts c.  A thread starts with a fresh context (default); a task with a copy of p's context. *)
Spawn(p, c) ==
    /\ Live /\ Running(p) /\ alive[c] = "new"
    /\ alive' = [alive EXCEPT ![c] = "run"]
    /\ ctx' = [ctx EXCEPT ![c] = IF Kind = "task" THEN ctx[p] ELSE "unset"]
    /\ exp' = [exp EXCEPT ![c] = IF Kind = "task" THEN <<Value(p)>> ELSE <<Default>>]
    /\ UNCHANGED stack

(* histogram arithmetic with an array-like operand (h + array, array + h, zeros + h, h += array, h * array, *)
(* array * h, h - array, h / array, list + h) or producing a negative content (h * (-1), a - b with b > a): *)
(* accepted iff free arithmetics is on in e's context; `accepted` is the expected outcome.                 *)
(* add_negative / iadd_negative / sum_negative: an operand that already holds negative contents (made earlier, legally, *)
(* inside a free-arithmetics block) is added where the sum has a negative bin.                                          *)
ArithKinds == {"array", "rarray", "rzeros", "iadd_array", "mul_array", "rmul_array", "sub_array", "div_array", "rlist",
               "negative", "sub_below_zero", "add_negative", "iadd_negative", "sum_negative"}
Arith(e, what, accepted) ==
    /\ Live /\ Running(e)
    /\ accepted = Value(e)
    /\ UNCHANGED <<ctx, stack, alive, exp>>

(* e ends (all its with-blocks closed) *)
Finish(e) ==
    /\ Live /\ Running(e) /\ e # Root /\ Len(stack[e]) = 0
    /\ alive' = [alive EXCEPT ![e] = "done"]
    /\ UNCHANGED <<ctx, stack, exp>>

Next ==
    \/ \E e \in Execs, v \in BOOLEAN : Enter(e, v) \/ SetDirect(e, v)
    \/ \E e \in Execs : Exit(e) \/ Finish(e)
    \/ \E e \in Execs, k \in 1..MaxNest, kind \in {"exc", "base"} : Raise(e, k, kind)
    \/ \E p, c \in Execs : Spawn(p, c)
    \/ \E e \in Execs, what \in ArithKinds, a \in BOOLEAN : Arith(e, what, a)

Spec == Init /\ [][Next]_vars

---------------------------------------------------------------------------
(* C19: what an execution observes depends only on its own history. *)
Isolation == \A e \in Execs : alive[e] # "new" => Value(e) = Last(exp[e])

(* C19: leaving a block (normally or by an exception through k blocks) restores the value before the matching Enter. *)
Restored ==
    [][\A e \in Execs :
          (Len(stack'[e]) < Len(stack[e])) => ValueOf(ctx'[e]) = exp[e][Len(stack'[e]) + 1]]_vars

(* C19: nesting depth of tokens and of the expected values agree. *)
StackShape == \A e \in Execs : Len(exp[e]) = Len(stack[e]) + 1

(* C19: an action of one execution never changes the context of another running execution. *)
NoCrossTalk ==
    [][\A e \in Execs : (alive[e] = "run" /\ ctx'[e] # ctx[e]) =>
          \A f \in Execs \ {e} : alive[f] = "run" => ctx'[f] = ctx[f]]_vars
=============================================================================
