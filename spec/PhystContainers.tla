--------------------------- MODULE PhystContainers ---------------------------
(***************************************************************************)
(* Input containers (C17): physt.h1 fed with the same data in different    *)
(* containers, and - for dask arrays - in every chunking.  The successor   *)
(* state does NOT depend on the container or the chunking: that is the     *)
(* property, and it is how the action is written.  The NaN mask is a       *)
(* function of the data sequence alone and selects values and weights at   *)
(* the same positions (Hist1D.Deposit skips NaN entries pairwise).         *)
(* Chunked input is the left fold of additions over per-chunk histograms;  *)
(* ChunkingIrrelevant states that this equals the histogram of all data.   *)
(***************************************************************************)
EXTENDS Hist1D

CONSTANTS Containers,     \* e.g. {"list", "tuple", "iter", "ndarray", "ndarray2d", "ndarray2d.F", "ndarray2d.T", "pd.Series", "pl.Series", "accessor", "dask"}
          CBatches        \* batches used for the container fan-out

(* all ways of cutting a sequence of n items into consecutive non-empty chunks *)
Compositions(n) == IF n = 0 THEN {<<>>} ELSE {q \in UNION {[1..m -> 1..n] : m \in 1..n} : SumSeq(q) = n}
ChunkStart(q, j) == 1 + SumSeq(SubSeq(q, 1, j - 1))
ChunkOf(batch, q, j) == SubSeq(batch, ChunkStart(q, j), ChunkStart(q, j) + q[j] - 1)

IsDask(container) == container \in {"dask", "dask.thread"}

ConstructFrom(L, keep, batch, weighted, container, chunks) ==
    /\ Live
    /\ h = Null
    /\ weighted \/ AllOnes(batch)
    /\ IsDask(container) => (chunks \in Compositions(Len(batch)) /\ Len(batch) > 0)
    /\ ~IsDask(container) => chunks = <<>>
    /\ container \in {"ndarray2d.F", "ndarray2d.T", "tuple2rows", "list2rows"} => (Len(batch) >= 4 /\ Len(batch) % 2 = 0)   \* a (2, n/2) array that is not C-contiguous
    /\ h' = [DepositAll(Empty(L, keep), batch) EXCEPT !.med = FALSE, !.weighted = weighted]
    /\ ghost' = GOfSeq(batch)

CNext ==
    \E L \in Layouts, batch \in CBatches, weighted \in BOOLEAN, container \in Containers :
        \E chunks \in (IF IsDask(container) THEN Compositions(Len(batch)) ELSE {<<>>}) :
            ConstructFrom(L, TRUE, batch, weighted, container, chunks)

CSpec == Init /\ [][CNext]_vars

(* C17/C05: folding the per-chunk histograms gives the histogram of all the data, for every chunking. *)
ChunkingIrrelevant ==
    \A L \in Layouts, batch \in CBatches : \A q \in Compositions(Len(batch)) :
        LET whole == DepositAll(Empty(L, TRUE), batch)
            parts == [j \in 1..Len(q) |-> DepositAll(Empty(L, TRUE), ChunkOf(batch, q, j))]
            plus(a, b) == [a EXCEPT !.freq = [i \in 1..Len(a.freq) |-> a.freq[i] + b.freq[i]],
                                    !.err2 = [i \in 1..Len(a.err2) |-> a.err2[i] + b.err2[i]],
                                    !.under = IF a.under = Unknown \/ b.under = Unknown THEN Unknown ELSE a.under + b.under,
                                    !.over = IF a.over = Unknown \/ b.over = Unknown THEN Unknown ELSE a.over + b.over]
            folded == FoldLeft(plus, Empty(L, TRUE), parts)
        IN  folded.freq = whole.freq /\ folded.err2 = whole.err2
            /\ (Consecutive(L) => folded.under = whole.under /\ folded.over = whole.over)
=============================================================================
