SPECIFICATION TraceSpec
CONSTANTS
  Dims = {1, 2}
  Indices = {0}
  Classes = {"M"}
  Weights = {1}
  Prefills = {}
  Batches = {}
  Ids = {1}
  Ops = {"NewEmpty", "NewFilled", "Fill", "FillN"}
  MaxDepth = 1000000
CHECK_DEADLOCK FALSE
INVARIANT NothingMissed
INVARIANT TightSpan
INVARIANT EqualsFixed
