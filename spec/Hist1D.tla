------------------------------ MODULE Hist1D ------------------------------
(***************************************************************************)
(* One 1-D histogram over fixed (static) bins: construction from data      *)
(* (physt.h1), creation of an empty histogram, fill, fill_n, find_bin.     *)
(*                                                                         *)
(* One action per public call.  The value a call returns is a parameter    *)
(* of the action (constrained by the action), so the label of a transition *)
(* in TLC's state graph carries everything the conformance engine needs:   *)
(* the call, its arguments and the expected result.                        *)
(*                                                                         *)
(* Serves C01 (construction), C03 (entry path irrelevant), C14 (raw-data   *)
(* statistics) and supplies histories for C08/C13/C18.                     *)
(***************************************************************************)
EXTENDS PhystCore, TLC

CONSTANTS Layouts,      \* set of bin sequences (rising, possibly gapped)
          Positions,    \* lattice positions a value may take (NaN allowed)
          Weights,      \* weights of the weighted calls
          UBatches,     \* batches (sequences of <<p, 1>>) for unweighted calls
          WBatches,     \* batches (sequences of <<p, w>>) for weighted calls
          MaxDepth      \* bound on the number of calls in a history

VARIABLES h,            \* the histogram record, or Null before creation
          ghost,        \* history variable: bag of every entry offered so far
          calls         \* number of calls so far (bounds the exploration)

vars == <<h, ghost, calls>>

Null == [null |-> TRUE]
NoneRet == -7           \* Python None as a return value

(***************************************************************************)
(* Statistics record: total weight, weighted sum, weighted sum of squares, *)
(* minimum, maximum (lattice positions).                                   *)
(***************************************************************************)
St0 == [w |-> 0, s1 |-> 0, s2 |-> 0, mn |-> PosInf, mx |-> NegInf]
StAddK(s, p, w, k) == [w  |-> s.w + w * k, s1 |-> s.s1 + w * p * k, s2 |-> s.s2 + w * p * p * k,
                       mn |-> Min2(s.mn, p), mx |-> Max2(s.mx, p)]

Empty(L, keep) ==
    [bins   |-> L, keep |-> keep,
     freq   |-> Zeros(Len(L)), err2 |-> Zeros(Len(L)),
     under  |-> IF keep THEN 0 ELSE Unknown,
     over   |-> IF keep THEN 0 ELSE Unknown,
     st     |-> St0,
     gapHit |-> FALSE,     \* some value fell into a gap between bins
     allIn  |-> TRUE,      \* every real value so far lay inside a bin (C14's premise)
     med    |-> FALSE,     \* the median is known (only after unweighted construction)
     weighted |-> FALSE]   \* some call carried explicit weights

(* Deposit k copies of one entry.  NaN values are skipped together with their weight. *)
DepositK(hh, p, w, k) ==
    LET n == Len(hh.bins)
        b == BinOf(hh.bins, p)
    IN  IF b = NaNBin THEN hh
        ELSE IF b \in 1..n THEN
            [hh EXCEPT !.freq[b] = @ + w * k, !.err2[b] = @ + w * w * k, !.st = StAddK(@, p, w, k)]
        ELSE IF b = 0 THEN
            [hh EXCEPT !.under = IF @ # Unknown THEN @ + w * k ELSE @, !.allIn = FALSE]
        ELSE IF b = n + 1 THEN
            [hh EXCEPT !.over = IF @ # Unknown THEN @ + w * k ELSE @, !.allIn = FALSE]
        ELSE
            [hh EXCEPT !.under = Unknown, !.over = Unknown, !.gapHit = TRUE, !.allIn = FALSE]

Deposit(hh, p, w) == DepositK(hh, p, w, 1)

DepositAll(hh, batch) == FoldLeft(LAMBDA acc, e : Deposit(acc, e[1], e[2]), hh, batch)

(* Python's return convention of fill / find_bin. *)
RetOf(bins, p) ==
    LET b == BinOf(bins, p) n == Len(bins)
    IN  IF b \in 1..n THEN b - 1
        ELSE IF b = 0 THEN -1
        ELSE IF b = n + 1 THEN n
        ELSE NoneRet        \* gap, or NaN: no bin

Rets == {NoneRet} \cup (-1..4)

AllOnes(batch) == \A i \in 1..Len(batch) : batch[i][2] = 1
NoNaN(batch)   == \A i \in 1..Len(batch) : batch[i][1] # NaN

---------------------------------------------------------------------------
Init == h = Null /\ ghost = GEmpty /\ calls = 0

Live == calls < MaxDepth /\ calls' = calls + 1     \* bound on the history length

(* Histogram1D(binning, keep_missed=keep)  /  h1(None, bins) *)
NewEmpty(L, keep) ==
    /\ Live
    /\ h = Null
    /\ h' = Empty(L, keep)
    /\ UNCHANGED ghost

(* h1(values, bins, weights=..., keep_missed=keep) *)
Construct(L, keep, batch, weighted) ==
    /\ Live
    /\ h = Null
    /\ weighted \/ AllOnes(batch)
    /\ h' = [DepositAll(Empty(L, keep), batch) EXCEPT !.med = ~weighted /\ (\E i \in 1..Len(batch) : batch[i][1] # NaN),
                                                       !.weighted = weighted]
    /\ ghost' = GOfSeq(batch)

(* h.fill(value, weight) -> index *)
Fill(p, w, r) ==
    /\ Live
    /\ h # Null
    /\ r = RetOf(h.bins, p)
    /\ h' = [Deposit(h, p, w) EXCEPT !.med = FALSE, !.weighted = @ \/ w # 1]
    /\ ghost' = GAdd(ghost, p, w)

(* h.fill_n(values, weights) *)
FillN(batch, weighted) ==
    /\ Live
    /\ h # Null
    /\ weighted \/ AllOnes(batch)
    /\ h' = [DepositAll(h, batch) EXCEPT !.med = FALSE, !.weighted = @ \/ weighted]
    /\ ghost' = GAddSeq(ghost, batch)

(* h.find_bin(value) -> index, no effect *)
FindBin(p, r) ==
    /\ Live
    /\ h # Null
    /\ r = RetOf(h.bins, p)
    /\ UNCHANGED <<h, ghost>>

Next ==
    \/ \E L \in Layouts, keep \in BOOLEAN : NewEmpty(L, keep)
    \/ \E L \in Layouts, keep \in BOOLEAN, b \in UBatches : Construct(L, keep, b, FALSE)
    \/ \E L \in Layouts, keep \in BOOLEAN, b \in WBatches : Construct(L, keep, b, TRUE)
    \/ \E p \in Positions, w \in Weights, r \in Rets : Fill(p, w, r)
    \/ \E b \in UBatches : FillN(b, FALSE)
    \/ \E b \in WBatches : FillN(b, TRUE)
    \/ \E p \in Positions, r \in Rets : FindBin(p, r)

Spec == Init /\ [][Next]_vars

---------------------------------------------------------------------------
(* Properties, stated over the ghost bag independently of Deposit.        *)

Real == GReal(ghost)
N == Len(h.bins)

(* C01: each bin holds the weight of the values it contains. *)
BinContents ==
    h # Null => \A i \in 1..N :
        h.freq[i] = SumOver(GIn(Real, h.bins, i), LAMBDA t : t[2] * t[3])

(* C01: squared errors are sums of squared weights. *)
SquaredErrors ==
    h # Null => \A i \in 1..N :
        h.err2[i] = SumOver(GIn(Real, h.bins, i), LAMBDA t : t[2] * t[2] * t[3])

(* C01: total + underflow + overflow = input weight (consecutive bins, tracking on). *)
Accounting ==
    (h # Null /\ h.keep /\ Consecutive(h.bins)) =>
        /\ h.under = SumOver(GIn(Real, h.bins, 0), LAMBDA t : t[2] * t[3])
        /\ h.over  = SumOver(GIn(Real, h.bins, N + 1), LAMBDA t : t[2] * t[3])
        /\ SumSeq(h.freq) + h.under + h.over = GWeight(Real)

(* C01: a value in a gap is counted nowhere and makes under/overflow unknown. *)
GapCountsNowhere ==
    (h # Null /\ GIn(Real, h.bins, Gap) # {}) =>
        /\ h.under = Unknown /\ h.over = Unknown
        /\ SumSeq(h.freq) + SumOver(GIn(Real, h.bins, 0), LAMBDA t : t[2] * t[3])
             + SumOver(GIn(Real, h.bins, N + 1), LAMBDA t : t[2] * t[3])
             + SumOver(GIn(Real, h.bins, Gap), LAMBDA t : t[2] * t[3]) = GWeight(Real)

(* C01: the last bin contains its right edge. *)
LastBinRightClosed ==
    h # Null => BinOf(h.bins, LastEdge(h.bins)) = N

(* C03: the state depends only on the bag of entries, not on how it was entered. *)
EntryPathIrrelevant ==
    h # Null =>
        LET ref == FoldSet(LAMBDA t, acc : DepositK(acc, t[1], t[2], t[3]), Empty(h.bins, h.keep), ghost)
        IN  /\ h.freq = ref.freq /\ h.err2 = ref.err2
            /\ h.under = ref.under /\ h.over = ref.over
            /\ h.st = ref.st

(* C03: with tracking off, values outside the bins change nothing at all:   *)
(* under/overflow read as unknown throughout, contents obey BinContents.    *)
NoKeepNoChange ==
    (h # Null /\ ~h.keep) => (h.under = Unknown /\ h.over = Unknown)

(* C03: find_bin changes nothing (action property). *)
FindBinPure ==
    [][(\E p \in Positions, r \in Rets : FindBin(p, r)) => UNCHANGED <<h, ghost>>]_vars

(* C14: statistics are those of the raw data when all of it lay inside the bins. *)
RawStatistics ==
    (h # Null /\ h.allIn) =>
        /\ h.st.w  = GWeight(Real)
        /\ h.st.s1 = SumOver(Real, LAMBDA t : t[1] * t[2] * t[3])
        /\ h.st.s2 = SumOver(Real, LAMBDA t : t[1] * t[1] * t[2] * t[3])
        /\ (Real # {} => /\ h.st.mn = Min({t[1] : t \in Real})
                         /\ h.st.mx = Max({t[1] : t \in Real}))
        /\ (Real = {} => h.st = St0)

AllInMeansAllIn ==
    h # Null => (h.allIn <=> \A t \in Real : InRange(h.bins, t[1]))

Shapes == h # Null => Len(h.freq) = N /\ Len(h.err2) = N /\ \A i \in 1..N : h.freq[i] >= 0 /\ h.err2[i] >= 0
=============================================================================
