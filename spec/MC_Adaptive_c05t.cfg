SPECIFICATION Spec
CONSTANTS
  Dims = {1, 2}
  Indices <- MCIndices
  Classes = {"M"}
  Weights = {1}
  Prefills <- MCPrefills
  Batches <- MCBatches
  Ids = {1, 2, 3}
  Ops = {"NewEmpty", "NewFilled", "Add", "IAdd", "Copy", "Fill", "FillN"}
  MaxDepth = 5
CHECK_DEADLOCK FALSE
INVARIANT NothingMissed
INVARIANT TightSpan
INVARIANT EqualsFixed
PROPERTY ContentsStayPut
PROPERTY Independence
