SPECIFICATION CSpec
CONSTANTS
  Layouts <- MCLayouts
  Positions = {3}
  Weights = {1}
  UBatches = {}
  WBatches = {}
  MaxDepth = 1
  Containers = {"list", "tuple", "iter", "ndarray", "ndarray2d", "ndarray2d.F", "ndarray2d.T", "tuple2rows", "list2rows", "pd.Series", "pl.Series", "accessor", "df.accessor", "dask", "dask.thread"}
  CBatches <- MCCBatches
CHECK_DEADLOCK FALSE
INVARIANT BinContents
INVARIANT SquaredErrors
INVARIANT ChunkingIrrelevant
