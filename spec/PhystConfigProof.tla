------------------------- MODULE PhystConfigProof -------------------------
(***************************************************************************)
(* TLAPS proofs for the design of the free-arithmetics switch (C19):       *)
(* Isolation, StackShape, Restored and NoCrossTalk hold for ANY number of  *)
(* executions, ANY nesting depth and ANY history length, i.e. without the  *)
(* bounds TLC needs.  The invariant that makes them inductive is Linked:   *)
(* the saved tokens on an execution's stack denote exactly the values      *)
(* recorded in its own history exp.                                        *)
(***************************************************************************)
EXTENDS PhystConfig, TLAPS

ASSUME ConstAssump == /\ Default \in BOOLEAN
                      /\ MaxNest \in Nat
                      /\ MaxDepth \in Nat
                      /\ Root \in Execs

CtxVal == {"unset", "on", "off"}

TypeOK ==
    /\ ctx \in [Execs -> CtxVal]
    /\ stack \in [Execs -> Seq(CtxVal)]
    /\ alive \in [Execs -> {"new", "run", "done"}]
    /\ exp \in [Execs -> Seq(BOOLEAN)]
    /\ calls \in Nat

Linked ==
    \A e \in Execs :
        /\ Len(exp[e]) = Len(stack[e]) + 1
        /\ ValueOf(ctx[e]) = exp[e][Len(exp[e])]
        /\ \A k \in 1..Len(stack[e]) : ValueOf(stack[e][k]) = exp[e][k]
        /\ alive[e] = "new" => stack[e] = <<>>

IndInv == TypeOK /\ Linked

LEMMA InitInd == Init => IndInv
  BY ConstAssump DEF Init, IndInv, TypeOK, Linked, CtxVal, ValueOf

LEMMA EnterInd == ASSUME IndInv, NEW e \in Execs, NEW v \in BOOLEAN, Enter(e, v) PROVE IndInv'
  BY ConstAssump DEF IndInv, TypeOK, Linked, Enter, Live, Running, CtxVal, ValueOf, B2S

LEMMA ExitInd == ASSUME IndInv, NEW e \in Execs, Exit(e) PROVE IndInv'
  BY ConstAssump DEF IndInv, TypeOK, Linked, Exit, Live, Running, CtxVal, ValueOf, Last

LEMMA RaiseInd == ASSUME IndInv, NEW e \in Execs, NEW k \in 1..MaxNest, NEW kind \in {"exc", "base"}, Raise(e, k, kind)
                  PROVE IndInv'
  BY ConstAssump DEF IndInv, TypeOK, Linked, Raise, Live, Running, CtxVal, ValueOf

LEMMA SetDirectInd == ASSUME IndInv, NEW e \in Execs, NEW v \in BOOLEAN, SetDirect(e, v) PROVE IndInv'
  BY ConstAssump DEF IndInv, TypeOK, Linked, SetDirect, Live, Running, CtxVal, ValueOf, B2S, SetLast

LEMMA SpawnInd == ASSUME IndInv, NEW p \in Execs, NEW c \in Execs, Spawn(p, c) PROVE IndInv'
  BY ConstAssump DEF IndInv, TypeOK, Linked, Spawn, Live, Running, CtxVal, ValueOf, Value

LEMMA ArithInd == ASSUME IndInv, NEW e \in Execs, NEW what \in ArithKinds, NEW a \in BOOLEAN, Arith(e, what, a)
                  PROVE IndInv'
  BY ConstAssump DEF IndInv, TypeOK, Linked, Arith, Live, Running, CtxVal, ValueOf

LEMMA FinishInd == ASSUME IndInv, NEW e \in Execs, Finish(e) PROVE IndInv'
  BY ConstAssump DEF IndInv, TypeOK, Linked, Finish, Live, Running, CtxVal, ValueOf

LEMMA NextInd == IndInv /\ [Next]_vars => IndInv'
  <1> SUFFICES ASSUME IndInv, [Next]_vars PROVE IndInv'
    OBVIOUS
  <1>1. CASE UNCHANGED vars
    BY <1>1 DEF IndInv, TypeOK, Linked, vars, ValueOf
  <1>2. CASE Next
    BY <1>2, EnterInd, ExitInd, RaiseInd, SetDirectInd, SpawnInd, ArithInd, FinishInd DEF Next
  <1> QED BY <1>1, <1>2

THEOREM Inductive == Spec => []IndInv
  BY InitInd, NextInd, PTL DEF Spec

(* C19, unbounded: what an execution observes depends only on its own history *)
THEOREM IsolationHolds == Spec => []Isolation
  <1>1. IndInv => Isolation
    BY DEF IndInv, Linked, Isolation, Value, Last
  <1> QED BY <1>1, Inductive, PTL

THEOREM StackShapeHolds == Spec => []StackShape
  <1>1. IndInv => StackShape
    BY DEF IndInv, Linked, StackShape
  <1> QED BY <1>1, Inductive, PTL

(* C19, unbounded: leaving k blocks (normally or by an exception) restores the value before the matching Enter *)
RestoredStep == \A e \in Execs : (Len(stack'[e]) < Len(stack[e])) => ValueOf(ctx'[e]) = exp[e][Len(stack'[e]) + 1]

LEMMA RestoredNext == IndInv /\ [Next]_vars => RestoredStep \/ UNCHANGED vars
  <1> SUFFICES ASSUME IndInv, [Next]_vars PROVE RestoredStep \/ UNCHANGED vars
    OBVIOUS
  <1>1. CASE UNCHANGED vars
    BY <1>1
  <1>2. ASSUME NEW e \in Execs, NEW v \in BOOLEAN, Enter(e, v) PROVE RestoredStep
    BY <1>2, ConstAssump DEF IndInv, TypeOK, Linked, Enter, Live, Running, CtxVal, ValueOf, B2S, RestoredStep
  <1>3. ASSUME NEW e \in Execs, Exit(e) PROVE RestoredStep
    BY <1>3, ConstAssump DEF IndInv, TypeOK, Linked, Exit, Live, Running, CtxVal, ValueOf, Last, RestoredStep
  <1>4. ASSUME NEW e \in Execs, NEW k \in 1..MaxNest, NEW kind \in {"exc", "base"}, Raise(e, k, kind) PROVE RestoredStep
    BY <1>4, ConstAssump DEF IndInv, TypeOK, Linked, Raise, Live, Running, CtxVal, ValueOf, RestoredStep
  <1>5. ASSUME NEW e \in Execs, NEW v \in BOOLEAN, SetDirect(e, v) PROVE RestoredStep
    BY <1>5 DEF SetDirect, RestoredStep
  <1>6. ASSUME NEW p \in Execs, NEW c \in Execs, Spawn(p, c) PROVE RestoredStep
    BY <1>6 DEF Spawn, RestoredStep
  <1>7. ASSUME NEW e \in Execs, NEW what \in ArithKinds, NEW a \in BOOLEAN, Arith(e, what, a) PROVE RestoredStep
    BY <1>7 DEF Arith, RestoredStep
  <1>8. ASSUME NEW e \in Execs, Finish(e) PROVE RestoredStep
    BY <1>8 DEF Finish, RestoredStep
  <1>9. CASE Next
    BY <1>9, <1>2, <1>3, <1>4, <1>5, <1>6, <1>7, <1>8 DEF Next
  <1> QED BY <1>1, <1>9

THEOREM RestoredHolds == Spec => Restored
  <1>1. IndInv /\ [Next]_vars => [RestoredStep]_vars
    BY RestoredNext
  <1> QED BY <1>1, Inductive, PTL DEF Spec, Restored, RestoredStep

(* C19, unbounded: a step of one execution never changes the context of another running execution *)
CrossStep == \A e \in Execs : (alive[e] = "run" /\ ctx'[e] # ctx[e]) =>
                 \A f \in Execs \ {e} : alive[f] = "run" => ctx'[f] = ctx[f]

LEMMA CrossNext == IndInv /\ [Next]_vars => CrossStep \/ UNCHANGED vars
  <1> SUFFICES ASSUME IndInv, [Next]_vars PROVE CrossStep \/ UNCHANGED vars
    OBVIOUS
  <1>1. CASE UNCHANGED vars
    BY <1>1
  <1>2. ASSUME NEW e \in Execs, NEW v \in BOOLEAN, Enter(e, v) PROVE CrossStep
    BY <1>2 DEF IndInv, TypeOK, Enter, CrossStep
  <1>3. ASSUME NEW e \in Execs, Exit(e) PROVE CrossStep
    BY <1>3 DEF IndInv, TypeOK, Exit, CrossStep
  <1>4. ASSUME NEW e \in Execs, NEW k \in 1..MaxNest, NEW kind \in {"exc", "base"}, Raise(e, k, kind) PROVE CrossStep
    BY <1>4 DEF IndInv, TypeOK, Raise, CrossStep
  <1>5. ASSUME NEW e \in Execs, NEW v \in BOOLEAN, SetDirect(e, v) PROVE CrossStep
    BY <1>5 DEF IndInv, TypeOK, SetDirect, CrossStep
  <1>6. ASSUME NEW p \in Execs, NEW c \in Execs, Spawn(p, c) PROVE CrossStep
    BY <1>6 DEF IndInv, TypeOK, Spawn, CrossStep
  <1>7. ASSUME NEW e \in Execs, NEW what \in ArithKinds, NEW a \in BOOLEAN, Arith(e, what, a) PROVE CrossStep
    BY <1>7 DEF Arith, CrossStep
  <1>8. ASSUME NEW e \in Execs, Finish(e) PROVE CrossStep
    BY <1>8 DEF Finish, CrossStep
  <1>9. CASE Next
    BY <1>9, <1>2, <1>3, <1>4, <1>5, <1>6, <1>7, <1>8 DEF Next
  <1> QED BY <1>1, <1>9

THEOREM NoCrossTalkHolds == Spec => NoCrossTalk
  <1>1. IndInv /\ [Next]_vars => [CrossStep]_vars
    BY CrossNext
  <1> QED BY <1>1, Inductive, PTL DEF Spec, NoCrossTalk, CrossStep
=============================================================================
