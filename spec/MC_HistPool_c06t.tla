---------------------------- MODULE MC_HistPool_c06t ----------------------------
EXTENDS HistPool
LA == << <<2, 4>>, <<4, 6>>, <<6, 8>> >>
LG == << <<2, 4>>, <<6, 8>> >>
MCSeeds == {
  [L |-> LA, keep |-> TRUE,  batch |-> << <<3, 1>>, <<5, 1>>, <<5, 1>> >>, weighted |-> FALSE, dtype |-> "i8", den |-> 1, name |-> 1],
  [L |-> LA, keep |-> TRUE,  batch |-> << <<1, 1>>, <<4, 2>>, <<9, 1>> >>, weighted |-> TRUE,  dtype |-> "i8", den |-> 1, name |-> 2],
  [L |-> LA, keep |-> TRUE,  batch |-> << <<7, 1>>, <<8, 3>> >>,           weighted |-> TRUE,  dtype |-> "f8", den |-> 2, name |-> 1],
  [L |-> LA, keep |-> FALSE, batch |-> << <<2, 1>>, <<9, 1>> >>,           weighted |-> FALSE, dtype |-> "i8", den |-> 1, name |-> 1],
  [L |-> LA, keep |-> TRUE,  batch |-> << >>,                              weighted |-> FALSE, dtype |-> "i8", den |-> 1, name |-> 1],
  [L |-> LG, keep |-> TRUE,  batch |-> << <<3, 1>>, <<5, 2>>, <<7, 1>> >>, weighted |-> TRUE,  dtype |-> "f8", den |-> 4, name |-> 1]
}
MCIds == 1..2
MCOps == {"New", "Mul", "IMul", "Div", "IDiv", "Normalize", "NegRefused", "ForeignRefused", "Copy"}
MCSliceArgs == {<<1, NoneIx>>, <<NoneIx, -1>>, <<1, 3>>}
MCTakeArgs == {<<0>>}
MCScalars == {<<2, 1, "pyint">>, <<1, 2, "pyfloat">>, <<3, 1, "pyint">>, <<1, 4, "f4">>, <<4, 1, "i2">>, <<1, 1, "pyint">>, <<3, 2, "pyfloat">>, <<1, 3, "pyfloat">>, <<5, 1, "f2">>}
=============================================================================
