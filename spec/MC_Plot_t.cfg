SPECIFICATION Spec
CONSTANTS
  Subjects1 <- MCSubjects1
  Subjects2 <- MCSubjects2
  TickArgs <- MCTickArgs
  MaxDepth = 3
CHECK_DEADLOCK FALSE
INVARIANT MarkLaws
INVARIANT TickLaws
PROPERTY PlotIsPure
