SPECIFICATION Spec
CONSTANTS
  Ids <- MCIds
  Seeds <- MCSeeds
  Ops <- MCOps
  Scalars <- MCScalars
  FillPos = {3}
  FillW = {1}
  SetDtypes = {"f8"}
  SliceArgs <- MCSliceArgs
  MergeArgs = {1, 2, 3, 4, 5, 6, 7}
  TakeArgs <- MCTakeArgs
  EdgeVals = {0}
  MinFreqs = {1, 2, 3, 4, 6, 100}
  MaxDepth = 4
  MaxVal = 200
CHECK_DEADLOCK FALSE
INVARIANT WellFormed
INVARIANT MergeLaws
PROPERTY Independence
PROPERTY RefusalIsNoOp
