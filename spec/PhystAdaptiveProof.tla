------------------------ MODULE PhystAdaptiveProof ------------------------
(***************************************************************************)
(* TLAPS lemmas about the axis algebra of PhystAdaptive (C04, adaptive     *)
(* addition of C05): for ANY integers, not only the indices TLC explores,  *)
(* growing an axis yields exactly the hull of the old range and the new    *)
(* index (nothing needed is left out, nothing unneeded is added, earlier   *)
(* bins stay), and the union of two axes is the hull of both ranges,       *)
(* independent of the order of the operands.                               *)
(***************************************************************************)
EXTENDS PhystAxis, TLAPS

IsAxis(ax) == ax \in [tmin : Int, count : Nat, grid : Nat]
Lo(ax) == ax.tmin
Hi(ax) == ax.tmin + ax.count - 1

LEMMA GrowIsAxis == ASSUME NEW ax, IsAxis(ax), NEW k \in Int PROVE IsAxis(GrowAxis(ax, k))
  BY DEF IsAxis, GrowAxis

(* the new index lies inside the grown axis *)
LEMMA GrowContains == ASSUME NEW ax, IsAxis(ax), NEW k \in Int PROVE InAxis(GrowAxis(ax, k), k)
  BY DEF IsAxis, GrowAxis, InAxis

(* every index that was inside stays inside: earlier bins are never dropped *)
LEMMA GrowKeeps == ASSUME NEW ax, IsAxis(ax), NEW k \in Int, NEW j \in Int, InAxis(ax, j) PROVE InAxis(GrowAxis(ax, k), j)
  BY DEF IsAxis, GrowAxis, InAxis

(* tight: the grown axis is exactly the hull of the old range and k *)
LEMMA GrowTight == ASSUME NEW ax, IsAxis(ax), NEW k \in Int
                   PROVE LET g == GrowAxis(ax, k)
                         IN  /\ ax.count = 0 => Lo(g) = k /\ Hi(g) = k
                             /\ ax.count > 0 => /\ Lo(g) = (IF k < Lo(ax) THEN k ELSE Lo(ax))
                                                /\ Hi(g) = (IF k > Hi(ax) THEN k ELSE Hi(ax))
  BY DEF IsAxis, GrowAxis, Lo, Hi

(* growing by an index that is already inside changes nothing: no spurious bins *)
LEMMA GrowIdempotent == ASSUME NEW ax, IsAxis(ax), NEW k \in Int, InAxis(ax, k) PROVE GrowAxis(ax, k) = ax
  BY DEF IsAxis, GrowAxis, InAxis

(* the order in which two indices arrive does not matter *)
LEMMA GrowCommutes == ASSUME NEW ax, IsAxis(ax), NEW k \in Int, NEW j \in Int
                      PROVE GrowAxis(GrowAxis(ax, k), j) = GrowAxis(GrowAxis(ax, j), k)
  BY DEF IsAxis, GrowAxis

LEMMA UnionIsAxis == ASSUME NEW a, IsAxis(a), NEW b, IsAxis(b) PROVE IsAxis(UnionAxis(a, b))
  BY DEF IsAxis, UnionAxis, GrowAxis

(* adaptive addition: the union contains every index of both operands ... *)
LEMMA UnionContains == ASSUME NEW a, IsAxis(a), NEW b, IsAxis(b), NEW j \in Int, InAxis(a, j) \/ InAxis(b, j)
                       PROVE InAxis(UnionAxis(a, b), j)
  BY DEF IsAxis, UnionAxis, GrowAxis, InAxis

(* ... and is the hull of both ranges: its ends are ends of an operand *)
LEMMA UnionTight == ASSUME NEW a, IsAxis(a), NEW b, IsAxis(b), a.count > 0, b.count > 0
                    PROVE LET u == UnionAxis(a, b)
                          IN  /\ Lo(u) = (IF Lo(b) < Lo(a) THEN Lo(b) ELSE Lo(a))
                              /\ Hi(u) = (IF Hi(b) > Hi(a) THEN Hi(b) ELSE Hi(a))
  BY DEF IsAxis, UnionAxis, GrowAxis, Lo, Hi

(* an axis without bins is always NoAxis(grid): that is how the specification creates it and Grow/Union keep it so *)
Normal(ax) == ax.count = 0 => ax.tmin = 0

LEMMA RecordEq == ASSUME NEW u, IsAxis(u), NEW v, IsAxis(v), u.tmin = v.tmin, u.count = v.count, u.grid = v.grid PROVE u = v
  BY DEF IsAxis

LEMMA GrowNormal == ASSUME NEW ax, IsAxis(ax), NEW k \in Int PROVE Normal(GrowAxis(ax, k))
  BY DEF IsAxis, GrowAxis, Normal

LEMMA UnionNormal == ASSUME NEW a, IsAxis(a), Normal(a), NEW b, IsAxis(b), Normal(b) PROVE Normal(UnionAxis(a, b))
  BY DEF IsAxis, UnionAxis, GrowAxis, Normal

(* a + b and b + a have the same bins (on a common grid) *)
LEMMA UnionCommutes == ASSUME NEW a, IsAxis(a), Normal(a), NEW b, IsAxis(b), Normal(b), a.grid = b.grid
                       PROVE UnionAxis(a, b) = UnionAxis(b, a)
  <1> DEFINE u == UnionAxis(a, b)
  <1> DEFINE v == UnionAxis(b, a)
  <1>1. IsAxis(u) /\ IsAxis(v)
    BY UnionIsAxis
  <1>2. u.tmin = v.tmin /\ u.count = v.count /\ u.grid = v.grid
    BY DEF IsAxis, UnionAxis, GrowAxis, Normal
  <1> QED BY <1>1, <1>2, RecordEq

LEMMA UnionGrid == ASSUME NEW a, IsAxis(a), NEW b, IsAxis(b), a.grid = b.grid PROVE UnionAxis(a, b).grid = a.grid
  BY DEF IsAxis, UnionAxis, GrowAxis

LEMMA UnionEmptyL == ASSUME NEW a, IsAxis(a), Normal(a), NEW b, IsAxis(b), Normal(b), a.grid = b.grid, a.count = 0
                     PROVE UnionAxis(a, b) = b
  <1>1. CASE b.count = 0
    BY <1>1, RecordEq DEF UnionAxis, Normal, IsAxis
  <1>2. CASE b.count # 0
    BY <1>2 DEF UnionAxis
  <1> QED BY <1>1, <1>2

LEMMA UnionEmptyR == ASSUME NEW a, NEW b, b.count = 0 PROVE UnionAxis(a, b) = a
  BY DEF UnionAxis

LEMMA UnionNonEmpty == ASSUME NEW a, IsAxis(a), NEW b, IsAxis(b), a.count > 0 \/ b.count > 0 PROVE UnionAxis(a, b).count > 0
  BY DEF IsAxis, UnionAxis, GrowAxis

(* (a + b) + c and a + (b + c) have the same bins *)
LEMMA UnionAssociative == ASSUME NEW a, IsAxis(a), Normal(a), NEW b, IsAxis(b), Normal(b), NEW c, IsAxis(c), Normal(c),
                                 a.grid = b.grid, b.grid = c.grid
                          PROVE UnionAxis(UnionAxis(a, b), c) = UnionAxis(a, UnionAxis(b, c))
  <1> DEFINE ab == UnionAxis(a, b)
  <1> DEFINE bc == UnionAxis(b, c)
  <1>0. /\ IsAxis(ab) /\ IsAxis(bc) /\ Normal(ab) /\ Normal(bc) /\ ab.grid = a.grid /\ bc.grid = b.grid
        /\ IsAxis(UnionAxis(ab, c)) /\ IsAxis(UnionAxis(a, bc))
    BY UnionIsAxis, UnionNormal, UnionGrid
  <1>1. CASE a.count = 0
    <2>1. ab = b
      BY <1>1, UnionEmptyL
    <2>2. UnionAxis(a, bc) = bc
      BY <1>0, <1>1, UnionEmptyL
    <2> QED BY <2>1, <2>2
  <1>2. CASE b.count = 0
    <2>1. ab = a
      BY <1>2, UnionEmptyR
    <2>2. bc = c
      BY <1>2, UnionEmptyL
    <2> QED BY <2>1, <2>2
  <1>3. CASE c.count = 0
    <2>1. UnionAxis(ab, c) = ab
      BY <1>3, UnionEmptyR
    <2>2. bc = b
      BY <1>3, UnionEmptyR
    <2> QED BY <2>1, <2>2
  <1>4. CASE a.count > 0 /\ b.count > 0 /\ c.count > 0
    <2>1. ab.count > 0 /\ bc.count > 0
      BY <1>4, UnionNonEmpty
    <2>2. /\ Lo(ab) = (IF Lo(b) < Lo(a) THEN Lo(b) ELSE Lo(a)) /\ Hi(ab) = (IF Hi(b) > Hi(a) THEN Hi(b) ELSE Hi(a))
          /\ Lo(bc) = (IF Lo(c) < Lo(b) THEN Lo(c) ELSE Lo(b)) /\ Hi(bc) = (IF Hi(c) > Hi(b) THEN Hi(c) ELSE Hi(b))
      BY <1>4, UnionTight
    <2> DEFINE u == UnionAxis(ab, c)
    <2> DEFINE v == UnionAxis(a, bc)
    <2>3. /\ Lo(u) = (IF Lo(c) < Lo(ab) THEN Lo(c) ELSE Lo(ab)) /\ Hi(u) = (IF Hi(c) > Hi(ab) THEN Hi(c) ELSE Hi(ab))
          /\ Lo(v) = (IF Lo(bc) < Lo(a) THEN Lo(bc) ELSE Lo(a)) /\ Hi(v) = (IF Hi(bc) > Hi(a) THEN Hi(bc) ELSE Hi(a))
      BY <1>0, <1>4, <2>1, UnionTight
    <2>4. u.grid = v.grid
      BY <1>0, UnionGrid
    <2>5. Lo(u) = Lo(v) /\ Hi(u) = Hi(v)
      BY <1>0, <2>2, <2>3 DEF IsAxis, Lo, Hi
    <2>6. u.tmin = v.tmin /\ u.count = v.count
      BY <1>0, <2>5 DEF IsAxis, Lo, Hi
    <2> QED BY <1>0, <2>4, <2>6, RecordEq
  <1> QED BY <1>1, <1>2, <1>3, <1>4 DEF IsAxis
=============================================================================
