---------------------------- MODULE MC_HistPool_c13t ----------------------------
EXTENDS HistPool
LA == << <<2, 4>>, <<4, 8>> >>
B1 == << <<3, 1>>, <<5, 1>>, <<5, 1>> >>
MCSeeds == {
  [L |-> LA, keep |-> TRUE, batch |-> B1, weighted |-> FALSE, dtype |-> "i8", den |-> 1, name |-> 1],
  [L |-> LA, keep |-> TRUE, batch |-> B1, weighted |-> FALSE, dtype |-> "i2", den |-> 1, name |-> 1],
  [L |-> LA, keep |-> TRUE, batch |-> B1, weighted |-> FALSE, dtype |-> "i4", den |-> 1, name |-> 1],
  [L |-> LA, keep |-> TRUE, batch |-> B1, weighted |-> FALSE, dtype |-> "f4", den |-> 1, name |-> 1],
  [L |-> LA, keep |-> TRUE, batch |-> << <<3, 1>>, <<5, 3>>, <<9, 1>> >>, weighted |-> TRUE, dtype |-> "f8", den |-> 2, name |-> 1],
  [L |-> LA, keep |-> TRUE, batch |-> << <<3, 1>>, <<5, 3>> >>, weighted |-> TRUE, dtype |-> "f2", den |-> 2, name |-> 1],
  [L |-> LA, keep |-> TRUE, batch |-> << <<3, 1>>, <<5, 3>> >>, weighted |-> TRUE, dtype |-> "f16", den |-> 4, name |-> 1],
  [L |-> LA, keep |-> TRUE, batch |-> << <<3, 200>>, <<5, 3>> >>, weighted |-> TRUE, dtype |-> "i8", den |-> 1, name |-> 1],
  [L |-> LA, keep |-> TRUE, batch |-> << <<3, 1>>, <<5, 3>> >>, weighted |-> TRUE, dtype |-> "i4", den |-> 2, name |-> 1]
}
MCIds == 1..3
MCOps == {"New", "NewRefused", "Fill", "FillHalf", "Add", "IAdd", "Sub", "ISub", "Mul", "IMul", "Div", "IDiv", "Normalize", "Merge", "SetDtype", "SetDtypeRefused"}
MCSliceArgs == {<<1, NoneIx>>}
MCTakeArgs == {<<0>>}
MCScalars == {<<2, 1, "pyint">>, <<1, 2, "pyfloat">>}
=============================================================================
