---------------------------- MODULE PhystSpecial ----------------------------
(***************************************************************************)
(* Coordinate-transformed histograms (C15) and their bin measures (C16).   *)
(*                                                                         *)
(* Points are integer vectors.  The true bin of a point is decided by      *)
(* exact integer predicates: the radial bin by comparing x^2+y^2(+z^2)     *)
(* with the squared (integer) radial edges, the phi sector (4 or 8 equal   *)
(* sectors of [0, 2 pi), left-closed) by the signs and |x| vs |y|, the     *)
(* theta sector (2 or 4 equal sectors of [0, pi], last one right-closed)   *)
(* by the sign of z and z^2 vs x^2+y^2, z by plain edges.  Every entry     *)
(* path - facade construction, fill, fill_n, find_bin, each with raw       *)
(* Cartesian input or with already transformed input - must put a point    *)
(* into this bin.                                                          *)
(*                                                                         *)
(* Bin measures are exact rationals times pi^k: a measure is the triple    *)
(* <<num, den, k>> (value num/den * pi^k).                                 *)
(***************************************************************************)
EXTENDS Integers, Sequences, FiniteSets, SequencesExt, FiniteSetsExt, TLC

CONSTANTS Classes,       \* subset of {"polar","radial2","radial3","azimuthal","spherical","sphsurf","cylindrical","cylsurf"}
          Points2, Points3,      \* integer points
          Batches2, Batches3,    \* sequences of points
          REdges,        \* radial (rho) edges: strictly increasing sequence of non-negative integers
          ZEdges,        \* z edges
          NPhi, NTheta,  \* number of phi sectors (4 or 8), theta sectors (2 or 4)
          Ops, MaxDepth

VARIABLES h,             \* [cls, cont] or Null; cont = set of <<cell, count>>
          d,             \* derived histogram (projection) or Null
          calls
vars == <<h, d, calls>>
Null == [null |-> TRUE]
NoCell == <<-7>>
Live == calls < MaxDepth /\ calls' = calls + 1
On(op) == op \in Ops
SumOver(S, Op(_)) == FoldSet(LAMBDA x, acc : acc + Op(x), 0, S)
Abs(x) == IF x < 0 THEN -x ELSE x

Is3D(cls) == cls \in {"radial3", "spherical", "sphsurf", "cylindrical", "cylsurf"}
PointsOf(cls) == IF Is3D(cls) THEN Points3 ELSE Points2
BatchesOf(cls) == IF Is3D(cls) THEN Batches3 ELSE Batches2

(* 0-based bin of a squared radius among squared edges; -1 = outside; last bin right-closed *)
RBin(r2) ==
    LET n == Len(REdges) - 1 IN
    IF r2 < REdges[1] * REdges[1] \/ r2 > REdges[n + 1] * REdges[n + 1] THEN -1
    ELSE IF r2 = REdges[n + 1] * REdges[n + 1] THEN n - 1
    ELSE (CHOOSE i \in 1..n : REdges[i] * REdges[i] <= r2 /\ r2 < REdges[i + 1] * REdges[i + 1]) - 1

ZBin(z) ==
    LET n == Len(ZEdges) - 1 IN
    IF z < ZEdges[1] \/ z > ZEdges[n + 1] THEN -1
    ELSE IF z = ZEdges[n + 1] THEN n - 1
    ELSE (CHOOSE i \in 1..n : ZEdges[i] <= z /\ z < ZEdges[i + 1]) - 1

(* octant 0..7 of atan2(y, x) folded into [0, 2 pi), left-closed sectors of width pi/4 *)
Octant(x, y) ==
    IF y = 0 /\ x >= 0 THEN 0
    ELSE IF x > 0 /\ y > 0 THEN (IF y < x THEN 0 ELSE 1)
    ELSE IF x = 0 /\ y > 0 THEN 2
    ELSE IF x < 0 /\ y > 0 THEN (IF -x < y THEN 2 ELSE 3)
    ELSE IF y = 0 /\ x < 0 THEN 4
    ELSE IF x < 0 /\ y < 0 THEN (IF -y < -x THEN 4 ELSE 5)
    ELSE IF x = 0 /\ y < 0 THEN 6
    ELSE (IF x < -y THEN 6 ELSE 7)
PhiBin(x, y) == Octant(x, y) \div (8 \div NPhi)

(* quarter 0..3 of theta = angle from +z in [0, pi], sectors of width pi/4, the last one right-closed *)
Quarter(x, y, z) ==
    LET rho2 == x * x + y * y IN
    IF z > 0 THEN (IF z * z > rho2 THEN 0 ELSE 1)
    ELSE IF z = 0 THEN (IF rho2 > 0 THEN 2 ELSE 0)
    ELSE (IF z * z < rho2 THEN 2 ELSE 3)
ThetaBin(x, y, z) == Quarter(x, y, z) \div (4 \div NTheta)

(* the true cell of a Cartesian point (NoCell if it misses a radial / z range) *)
CellOf(cls, p) ==
    LET cell ==
        CASE cls = "polar"       -> <<RBin(p[1] * p[1] + p[2] * p[2]), PhiBin(p[1], p[2])>>
          [] cls = "radial2"     -> <<RBin(p[1] * p[1] + p[2] * p[2])>>
          [] cls = "radial3"     -> <<RBin(p[1] * p[1] + p[2] * p[2] + p[3] * p[3])>>
          [] cls = "azimuthal"   -> <<PhiBin(p[1], p[2])>>
          [] cls = "spherical"   -> <<RBin(p[1] * p[1] + p[2] * p[2] + p[3] * p[3]), ThetaBin(p[1], p[2], p[3]), PhiBin(p[1], p[2])>>
          [] cls = "sphsurf"     -> <<ThetaBin(p[1], p[2], p[3]), PhiBin(p[1], p[2])>>
          [] cls = "cylindrical" -> <<RBin(p[1] * p[1] + p[2] * p[2]), PhiBin(p[1], p[2]), ZBin(p[3])>>
          [] cls = "cylsurf"     -> <<PhiBin(p[1], p[2]), ZBin(p[3])>>
    IN  IF \E i \in 1..Len(cell) : cell[i] = -1 THEN NoCell ELSE cell

ContAdd(cont, cell) ==
    IF cell = NoCell THEN cont
    ELSE IF \E t \in cont : t[1] = cell
         THEN LET t == CHOOSE t \in cont : t[1] = cell IN (cont \ {t}) \cup {<<cell, t[2] + 1>>}
         ELSE cont \cup {<<cell, 1>>}
ContAddAll(cont, cls, batch) == FoldLeft(LAMBDA acc, p : ContAdd(acc, CellOf(cls, p)), cont, batch)
Missed(cls, batch) == Cardinality({i \in 1..Len(batch) : CellOf(cls, batch[i]) = NoCell})

---------------------------------------------------------------------------
Init == h = Null /\ d = Null /\ calls = 0

(* the facade function of the class, fed with Cartesian points or (transformed) with the class' own transform output *)
Facade(cls, batch, transformed) ==
    /\ Live /\ On("Facade") /\ h = Null
    /\ h' = [cls |-> cls, cont |-> ContAddAll({}, cls, batch), missed |-> Missed(cls, batch)]
    /\ UNCHANGED d

(* the class constructed directly over the same bins, empty *)
NewEmpty(cls) ==
    /\ Live /\ On("NewEmpty") /\ h = Null
    /\ h' = [cls |-> cls, cont |-> {}, missed |-> 0]
    /\ UNCHANGED d

Fill(p, transformed, ret) ==
    /\ Live /\ On("Fill") /\ h # Null /\ (Len(p) = 3) = Is3D(h.cls)
    /\ ret = CellOf(h.cls, p)
    /\ h' = [h EXCEPT !.cont = ContAdd(@, ret), !.missed = IF ret = NoCell THEN @ + 1 ELSE @]
    /\ UNCHANGED d

FillN(batch, transformed) ==
    /\ Live /\ On("FillN") /\ h # Null /\ batch \in BatchesOf(h.cls)
    /\ h' = [h EXCEPT !.cont = ContAddAll(@, h.cls, batch), !.missed = @ + Missed(h.cls, batch)]
    /\ UNCHANGED d

FindBin(p, transformed, ret) ==
    /\ Live /\ On("FindBin") /\ h # Null /\ (Len(p) = 3) = Is3D(h.cls)
    /\ ret = CellOf(h.cls, p)
    /\ UNCHANGED <<h, d>>

(* points of the wrong dimensionality are refused *)
WrongDim(how) ==
    /\ Live /\ On("WrongDim") /\ h # Null
    /\ UNCHANGED <<h, d>>

(* projections: coordinate subset -> special class and marginal contents *)
ProjClass(cls, axes) ==
    CASE cls = "polar" /\ axes = <<1>> -> "radial2"
      [] cls = "polar" /\ axes = <<2>> -> "azimuthal"
      [] cls = "spherical" /\ axes = <<1>> -> "radial3"
      [] cls = "spherical" /\ axes = <<2, 3>> -> "sphsurf"
      [] cls = "cylindrical" /\ axes = <<1>> -> "radial2"
      [] cls = "cylindrical" /\ axes = <<2>> -> "azimuthal"
      [] cls = "cylindrical" /\ axes = <<1, 2>> -> "polar"
      [] cls = "cylindrical" /\ axes = <<2, 3>> -> "cylsurf"
      [] cls = "cylsurf" /\ axes = <<1>> -> "azimuthal"
      [] OTHER -> "plain"
Project(axes) ==
    /\ Live /\ On("Project") /\ h # Null /\ d = Null
    /\ h.cls \in {"polar", "spherical", "cylindrical", "cylsurf"}
    /\ \A i \in 1..Len(axes) : axes[i] \in 1..(IF h.cls \in {"polar", "cylsurf"} THEN 2 ELSE 3)
    /\ d' = [cls |-> ProjClass(h.cls, axes),
             cont |-> LET cs == {[i \in 1..Len(axes) |-> t[1][axes[i]]] : t \in h.cont}
                      IN  {<<c, SumOver({t \in h.cont : \A i \in 1..Len(axes) : t[1][axes[i]] = c[i]}, LAMBDA t : t[2])>> : c \in cs},
             missed |-> 0]
    /\ UNCHANGED h

Next ==
    \/ \E cls \in Classes, tr \in BOOLEAN : \E b \in BatchesOf(cls) : Facade(cls, b, tr)
    \/ \E cls \in Classes : NewEmpty(cls)
    \/ \E p \in Points2 \cup Points3, tr \in BOOLEAN : \E r \in {CellOf(cls, p) : cls \in {c \in Classes : (Len(p) = 3) = Is3D(c)}} : Fill(p, tr, r) \/ FindBin(p, tr, r)
    \/ \E b \in Batches2 \cup Batches3, tr \in BOOLEAN : FillN(b, tr)
    \/ \E how \in {"fill", "fill_n", "find_bin", "transform"} : WrongDim(how)
    \/ \E axes \in {<<1>>, <<2>>, <<3>>, <<1, 2>>, <<2, 3>>, <<1, 3>>} : Project(axes)

Spec == Init /\ [][Next]_vars

DimOK(p) == h # Null /\ (Len(p) = 3) = Is3D(h.cls)

---------------------------------------------------------------------------
(* C15: total + missed = number of points entered is kept by every entry path. *)
Total(x) == SumOver(x.cont, LAMBDA t : t[2])
ProjectionIsMarginal == [][(d' # d /\ d' # Null) => Total(d') = Total(h)]_vars

(* C15: octants and quarters are consistent with the symmetries of the plane / space. *)
SectorSymmetry ==
    /\ \A p \in Points2 : p # <<0, 0>> =>
          /\ Octant(-p[1], -p[2]) = (Octant(p[1], p[2]) + 4) % 8          \* point reflection adds pi
          /\ Octant(-p[2], p[1]) = (Octant(p[1], p[2]) + 2) % 8           \* rotation by pi/2
    /\ \A p \in Points3 : (p[1] # 0 \/ p[2] # 0) /\ p[3] # 0 /\ p[3] * p[3] # p[1] * p[1] + p[2] * p[2] =>
          Quarter(p[1], p[2], -p[3]) = 3 - Quarter(p[1], p[2], p[3])     \* mirror in the xy-plane
=============================================================================
