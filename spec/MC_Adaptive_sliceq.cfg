SPECIFICATION Spec
CONSTANTS
  Dims = {1}
  Indices <- MCIndices
  Classes = {"M"}
  Weights = {1}
  Prefills <- MCPrefills
  Batches <- MCBatches
  Ids = {1, 2, 3}
  Ops = {"NewFilled", "Fill", "FillN", "SliceA"}
  MaxDepth = 4
CHECK_DEADLOCK FALSE
INVARIANT NothingMissed
INVARIANT TightSpan
INVARIANT EqualsFixed
PROPERTY ContentsStayPut
PROPERTY Independence
