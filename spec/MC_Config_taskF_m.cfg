SPECIFICATION Spec
CONSTANTS
  Execs = {"main", "a", "b"}
  Root = "main"
  Kind = "task"
  Default = FALSE
  MaxNest = 3
  MaxDepth = 5
CHECK_DEADLOCK FALSE
INVARIANT Isolation
INVARIANT StackShape
PROPERTY Restored
PROPERTY NoCrossTalk
