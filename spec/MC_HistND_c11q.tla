---------------------------- MODULE MC_HistND_c11q ----------------------------
EXTENDS HistND
A1  == << <<2, 4>>, <<4, 6>> >>
A3  == << <<2, 4>>, <<4, 8>>, <<8, 10>> >>
A2b == << <<0, 2>>, <<2, 8>> >>
MCAxisLayouts == { <<A1, A3>>, <<A1, A3, A2b>> }
MCRIncl == { <<TRUE, TRUE>>, <<TRUE, FALSE, TRUE>> }
MCRows == { <<3, 3>> }
MCWeights == {1}
MCUBatches == {<< <<<<3, 3>>, 1>> >>}
MCWBatches == {<< <<<<3, 3>>, 2>> >>}
MCOps == {"FromArrays", "GetItem", "GetCell", "DropD"}
MCScaleArgs == {<<2, 1>>}
IdxT(LL) == {ix \in [1..Len(LL) -> -3..2] : \A a \in 1..Len(LL) : NormIx(Len(LL[a]), ix[a]) \in 0..(Len(LL[a]) - 1)}
CellOfIx(LL, ix) == [a \in 1..Len(LL) |-> NormIx(Len(LL[a]), ix[a]) + 1]
MCCellArgs == UNION {{<<ix, [a \in 1..Len(LL) |-> Left(LL[a][CellOfIx(LL, ix)[a]])], [a \in 1..Len(LL) |-> Right(LL[a][CellOfIx(LL, ix)[a]])],
                        CodeOf(CellOfIx(LL, ix), 4)>> : ix \in IdxT(LL)} : LL \in MCAxisLayouts}
MCRetCands == {NoneRet}
MCProjAxes == {<<1>>}
MCMergeArgs == {<<2, 1>>}
IxI == {<<"i", k>> : k \in {-3, -2, -1, 0, 1, 2}}
IxS == {<<"s", a, b>> : a \in {NoneIx, -2, 0, 1}, b \in {NoneIx, -1, 1, 2, 3}}
Ix1 == IxI \cup IxS
MCIndexArgs == {<<x>> : x \in Ix1} \cup {<<x, y>> : x \in Ix1, y \in Ix1} \cup {<<x, y, z>> : x \in {<<"i", 1>>, <<"s", NoneIx, NoneIx>>, <<"s", 1, NoneIx>>}, y \in {<<"i", -1>>, <<"s", 0, 2>>}, z \in Ix1}
=============================================================================
