SPECIFICATION Spec
CONSTANTS
  BinArrays <- MCBinArrays
  BadArrays <- MCBadArrays
  SliceArgs <- MCSliceArgs
  NumpyArgs <- MCNumpyArgs
  PrettyArgs <- MCPrettyArgs
  QuantArgs <- MCQuantArgs
  ExpArgs <- MCExpArgs
  CountArgs <- MCCountArgs
  Ops = {"Make", "MakeRefused", "Copy", "Slice", "EqCheck", "AsStatic", "AsFixedWidth", "NumpyRule", "PrettyRule", "QuantileRule", "ExpRule", "CountRule"}
  MaxDepth = 3
CHECK_DEADLOCK FALSE
INVARIANT RepresentationsAgree
INVARIANT NumpyLaws
INVARIANT QuantLaws
INVARIANT CountLaws
