---------------------------- MODULE MC_HistPool_c05t ----------------------------
EXTENDS HistPool
LA == << <<2, 4>>, <<4, 6>>, <<6, 8>> >>
LB == << <<2, 4>>, <<4, 8>> >>
LG1 == << <<2, 4>>, <<6, 8>>, <<10, 12>> >>
LG2 == << <<2, 4>>, <<5, 7>>, <<10, 12>> >>
MCSeeds == {
  [L |-> LA, keep |-> TRUE,  batch |-> << <<3, 1>>, <<5, 1>>, <<5, 1>> >>, weighted |-> FALSE, dtype |-> "i8", den |-> 1, name |-> 1],
  [L |-> LA, keep |-> TRUE,  batch |-> << <<1, 1>>, <<4, 2>>, <<9, 1>> >>, weighted |-> TRUE,  dtype |-> "i8", den |-> 1, name |-> 2],
  [L |-> LA, keep |-> TRUE,  batch |-> << <<7, 1>>, <<8, 3>> >>,           weighted |-> TRUE,  dtype |-> "f8", den |-> 2, name |-> 1],
  [L |-> LA, keep |-> FALSE, batch |-> << <<2, 1>>, <<9, 1>> >>,           weighted |-> FALSE, dtype |-> "i8", den |-> 1, name |-> 1],
  [L |-> LA, keep |-> TRUE,  batch |-> << >>,                              weighted |-> FALSE, dtype |-> "i8", den |-> 1, name |-> 1],
  \* every value outside the bins: all contents zero, but underflow, overflow and statistics are not
  [L |-> LA, keep |-> TRUE,  batch |-> << <<1, 1>>, <<9, 1>>, <<9, 1>> >>, weighted |-> FALSE, dtype |-> "i8", den |-> 1, name |-> 1],
  [L |-> LB, keep |-> TRUE,  batch |-> << <<3, 1>>, <<7, 1>> >>,           weighted |-> FALSE, dtype |-> "i8", den |-> 1, name |-> 1],
  [L |-> LG1, keep |-> TRUE, batch |-> << <<3, 1>>, <<7, 2>>, <<11, 1>> >>, weighted |-> TRUE, dtype |-> "f8", den |-> 2, name |-> 1],
  [L |-> LG2, keep |-> TRUE, batch |-> << <<3, 2>>, <<5, 1>>, <<11, 1>> >>, weighted |-> TRUE, dtype |-> "f8", den |-> 2, name |-> 1]
}
MCIds == 1..3
MCOps == {"New", "Add", "IAdd", "AddRefused", "IAddRefused", "ForeignRefused", "Copy"}
MCSliceArgs == {<<1, NoneIx>>, <<NoneIx, -1>>, <<1, 3>>}
MCTakeArgs == {<<0>>}
MCScalars == {<<2, 1, "pyint">>}
=============================================================================
