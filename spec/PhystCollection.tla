--------------------------- MODULE PhystCollection ---------------------------
(***************************************************************************)
(* HistogramCollection: named 1-D histograms over one shared binning.      *)
(*                                                                         *)
(* State: the collection c (a sequence of member records of PhystRec),     *)
(* a derived collection d (copy, normalize_* without inplace, JSON round   *)
(* trip) and a derived histogram s (sum, a member fetched by name).        *)
(* The members are the exact-arithmetic records of PhystRec, so the laws   *)
(* of C05 (sum = histogram of all the data), C06 (normalisation), C12      *)
(* (independence of copies) and C18 (refusals change nothing) are stated   *)
(* on the same objects as for single histograms.                           *)
(***************************************************************************)
EXTENDS PhystRec, TLC

CONSTANTS L,            \* the shared bins
          LOther,       \* different bins (a member over them must be refused)
          Seeds,        \* set of [batch, weighted, den, name]: data a member is created from
          FillPos,      \* positions for later fills
          MaxMembers, MaxDepth, Ops

VARIABLES c, d, s, hc, hd, calls     \* hc / hd: the collection c / d exists (c, d are sequences of members)
vars == <<c, d, s, hc, hd, calls>>
Null == [null |-> TRUE]
Live == calls < MaxDepth /\ calls' = calls + 1
On(op) == op \in Ops

MemberOf(sd) ==
    [FromData(L, TRUE, sd.batch, IF sd.den = 1 THEN "i8" ELSE "f8") EXCEPT !.name = sd.name, !.den = sd.den]

ZeroSum == EmptyRec(L, TRUE, "i8")
SumOf(ms) == IF Len(ms) = 0 THEN ZeroSum ELSE FoldLeft(LAMBDA acc, m : Plus(acc, m), ms[1], SubSeq(ms, 2, Len(ms)))

Init == c = <<>> /\ d = <<>> /\ s = Null /\ hc = FALSE /\ hd = FALSE /\ calls = 0

(* HistogramCollection(binning=L) *)
NewColl ==
    /\ Live /\ On("NewColl") /\ ~hc
    /\ c' = <<>> /\ hc' = TRUE /\ UNCHANGED <<d, s, hd>>

(* HistogramCollection(h1, h2): members given at construction *)
FromMembers(a, b) ==
    /\ Live /\ On("FromMembers") /\ ~hc
    /\ c' = <<MemberOf(a), MemberOf(b)>> /\ hc' = TRUE /\ UNCHANGED <<d, s, hd>>

(* HistogramCollection(h over L, h over LOther): refused *)
FromMembersRefused(a) ==
    /\ Live /\ On("FromMembersRefused") /\ ~hc
    /\ UNCHANGED <<c, d, s, hc, hd>>

(* c.create(name, values, weights=...) *)
Create(sd) ==
    /\ Live /\ On("Create") /\ hc /\ Len(c) < MaxMembers
    /\ c' = Append(c, MemberOf(sd)) /\ UNCHANGED <<d, s, hc, hd>>

(* c.add(h) with h over the same bins / over other bins (refused, nothing changes) *)
AddMember(sd) ==
    /\ Live /\ On("AddMember") /\ hc /\ Len(c) < MaxMembers
    /\ c' = Append(c, MemberOf(sd)) /\ UNCHANGED <<d, s, hc, hd>>
AddRefused(sd) ==
    /\ Live /\ On("AddRefused") /\ hc
    /\ UNCHANGED <<c, d, s, hc, hd>>

(* c[name]: the first member carrying the name; KeyError if there is none *)
FirstNamed(ms, n) == CHOOSE i \in 1..Len(ms) : ms[i].name = n /\ \A j \in 1..(i - 1) : ms[j].name # n
GetByName(n, ix) ==
    /\ Live /\ On("GetByName") /\ hc /\ \E i \in 1..Len(c) : c[i].name = n
    /\ ix = FirstNamed(c, n)
    /\ UNCHANGED <<c, d, s, hc, hd>>
GetByNameRefused(n) ==
    /\ Live /\ On("GetByNameRefused") /\ hc /\ \A i \in 1..Len(c) : c[i].name # n
    /\ UNCHANGED <<c, d, s, hc, hd>>

(* s = c.sum() *)
\* (TLC's integers are 32-bit: sums are taken while the members' denominators are small)
SmallDens(ms) == \A i \in 1..Len(ms) : ms[i].den <= 8
Sum ==
    /\ Live /\ On("Sum") /\ hc /\ s = Null /\ SmallDens(c)
    /\ s' = SumOf(c) /\ UNCHANGED <<c, d, hc, hd>>

(* s.fill(p): the sum is a histogram of its own *)
FillSum(p) ==
    /\ Live /\ On("FillSum") /\ s # Null
    /\ s' = DepositR(s, p, s.den) /\ UNCHANGED <<c, d, hc, hd>>

(* d = c.copy() *)
CopyColl ==
    /\ Live /\ On("CopyColl") /\ hc /\ ~hd
    /\ d' = c /\ hd' = TRUE /\ UNCHANGED <<c, s, hc>>

(* d = parse_json(c.to_json()): the document carries bins, contents, errors, missed, dtype and metadata, not the statistics *)
JsonRoundTrip ==
    /\ Live /\ On("JsonRoundTrip") /\ hc /\ ~hd /\ Len(c) > 0
    /\ d' = [i \in 1..Len(c) |-> [c[i] EXCEPT !.stv = "invalid"]] /\ hd' = TRUE /\ UNCHANGED <<c, s, hc>>

(* c[i].fill(p, w) / d[i].fill(p, w): only the histogram addressed changes *)
FillMember(which, i, p, w) ==
    /\ Live /\ On("FillMember")
    /\ IF which = "c"
       THEN hc /\ i \in 1..Len(c) /\ c' = [c EXCEPT ![i] = DepositR(@, p, w * @.den)] /\ UNCHANGED <<d, s, hc, hd>>
       ELSE hd /\ i \in 1..Len(d) /\ d' = [d EXCEPT ![i] = DepositR(@, p, w * @.den)] /\ UNCHANGED <<c, s, hc, hd>>

(* normalize_all(inplace): every member's total becomes 1 *)
CanNormAll(ms) == Len(ms) > 0 /\ \A i \in 1..Len(ms) : Total(ms[i]) > 0
NormAll(ms) == [i \in 1..Len(ms) |-> Normalized(ms[i], FALSE)]
NormalizeAll(inplace) ==
    /\ Live /\ On("NormalizeAll") /\ hc /\ CanNormAll(c)
    /\ IF inplace THEN c' = NormAll(c) /\ UNCHANGED <<d, s, hc, hd>>
       ELSE ~hd /\ d' = NormAll(c) /\ hd' = TRUE /\ UNCHANGED <<c, s, hc>>

(* normalize_bins(inplace): every member's content becomes its share of the bin's sum over the members.  *)
(* D: common denominator of the members; S[b]: numerator of the bin's sum over D; M: lcm of the S[b].     *)
(* The member's new denominator is den * M; under/overflow and the statistics are left as they were      *)
(* (physt divides the two arrays only), i.e. their numerators are multiplied by M as well.               *)
LcmSeq(q) == FoldLeft(LAMBDA acc, x : Lcm2(acc, x), 1, q)
ComD(ms) == LcmSeq([i \in 1..Len(ms) |-> ms[i].den])
BinSums(ms) == [b \in 1..Len(L) |-> SumSeq([i \in 1..Len(ms) |-> ms[i].freq[b] * (ComD(ms) \div ms[i].den)])]
\* (members that were normalised before carry large denominators: TLC's 32-bit integers bound this action to fresh members)
CanNormBins(ms) == Len(ms) > 0 /\ (\A i \in 1..Len(ms) : ms[i].den <= 2) /\ \A b \in 1..Len(L) : BinSums(ms)[b] > 0
NormBins(ms) ==
    LET D == ComD(ms)  S == BinSums(ms)  M == LcmSeq(S)
        exact == IsPow2(D) /\ \A b \in 1..Len(L) : IsPow2(S[b])
    IN  [i \in 1..Len(ms) |->
            Reduce([ms[i] EXCEPT !.den = @ * M,
                                 !.freq = [b \in 1..Len(L) |-> ms[i].freq[b] * D * (M \div S[b])],
                                 !.err2 = [b \in 1..Len(L) |-> ms[i].err2[b] * D * D * (M \div S[b]) * (M \div S[b])],
                                 !.under = MulU(@, M), !.over = MulU(@, M),
                                 !.st = [@ EXCEPT !.w = @ * M, !.s1 = @ * M, !.s2 = @ * M],
                                 !.dtype = Promote(@, "f8"),
                                 !.prec = Max2(@, IF exact /\ IsPow2(ms[i].den) THEN 0 ELSE 1)])]
NormalizeBins(inplace) ==
    /\ Live /\ On("NormalizeBins") /\ hc /\ CanNormBins(c)
    /\ IF inplace THEN c' = NormBins(c) /\ UNCHANGED <<d, s, hc, hd>>
       ELSE ~hd /\ d' = NormBins(c) /\ hd' = TRUE /\ UNCHANGED <<c, s, hc>>

(* c == d (after a copy or a round trip, possibly after later fills): eq is the expected answer *)
Eq(eq) ==
    /\ Live /\ On("Eq") /\ hc /\ hd
    /\ eq = (Len(c) = Len(d) /\ \A i \in 1..Len(c) :
                 c[i].freq = d[i].freq /\ c[i].err2 = d[i].err2 /\ c[i].den = d[i].den /\ c[i].under = d[i].under /\ c[i].over = d[i].over)
    /\ UNCHANGED <<c, d, s, hc, hd>>

DropD == /\ Live /\ On("DropD") /\ hd /\ d' = <<>> /\ hd' = FALSE /\ UNCHANGED <<c, s, hc>>
DropS == /\ Live /\ On("DropS") /\ s # Null /\ s' = Null /\ UNCHANGED <<c, d, hc, hd>>

Next ==
    \/ NewColl \/ Sum \/ CopyColl \/ JsonRoundTrip \/ DropD \/ DropS
    \/ \E a, b \in Seeds : FromMembers(a, b)
    \/ \E a \in Seeds : FromMembersRefused(a) \/ Create(a) \/ AddMember(a) \/ AddRefused(a)
    \/ \E n \in 0..3, ix \in 1..MaxMembers : GetByName(n, ix)
    \/ \E n \in 0..3 : GetByNameRefused(n)
    \/ \E p \in FillPos : FillSum(p)
    \/ \E which \in {"c", "d"}, i \in 1..MaxMembers, p \in FillPos, w \in {1, 2} : FillMember(which, i, p, w)
    \/ \E ip \in BOOLEAN : NormalizeAll(ip) \/ NormalizeBins(ip)
    \/ \E eq \in BOOLEAN : Eq(eq)

Spec == Init /\ [][Next]_vars

---------------------------------------------------------------------------
Members(x) == {x[i] : i \in 1..Len(x)}

(* every member of every collection lives on the shared bins and is well-formed *)
SharedBins == \A m \in Members(c) \cup Members(d) : m.bins = L /\ Len(m.freq) = Len(L) /\ Len(m.err2) = Len(L)

(* C05: the sum holds, bin by bin, the sum of the members' contents and squared errors *)
SumIsSum ==
    (hc /\ SmallDens(c)) => LET t == SumOf(c) IN
        \A b \in 1..Len(L) :
            /\ t.freq[b] * ComD(c) = t.den * SumSeq([i \in 1..Len(c) |-> c[i].freq[b] * (ComD(c) \div c[i].den)])

(* C06: after normalize_all every total is 1; after normalize_bins the shares of every bin add up to 1 *)
NormAllLaw == (hc /\ CanNormAll(c)) => \A i \in 1..Len(c) : Total(NormAll(c)[i]) = NormAll(c)[i].den
NormBinsLaw ==
    (hc /\ CanNormBins(c)) =>
        LET n == NormBins(c)  D == ComD(n) IN
        \A b \in 1..Len(L) : SumSeq([i \in 1..Len(n) |-> n[i].freq[b] * (D \div n[i].den)]) = D

(* C12: a step changes at most one of the three objects *)
Independence == [][Cardinality({x \in {1, 2, 3} : <<c, d, s>>[x] # <<c', d', s'>>[x]}) <= 1]_vars

(* C18: refused calls change nothing *)
RefusalIsNoOp ==
    [][((\E a \in Seeds : FromMembersRefused(a) \/ AddRefused(a)) \/ (\E n \in 0..3 : GetByNameRefused(n))) => UNCHANGED <<c, d, s, hc, hd>>]_vars
=============================================================================
