---------------------------- MODULE TraceHist1D ----------------------------
(***************************************************************************)
(* Engine T for C01/C03: executions recorded from the real code on RAW     *)
(* FLOATS (random data, bins from explicit edges or from method names such *)
(* as numpy / quantile / fixed_width / pretty / integer / exponential)     *)
(* are validated against Hist1D.  The recorder replaces every distinct     *)
(* float occurring in a program (edges, values) by its RANK - an order     *)
(* isomorphism onto the integer lattice, which is all the binning depends  *)
(* on - and writes one ndjson line per public call with the abstract       *)
(* arguments and the abstract state observed after the call.               *)
(***************************************************************************)
EXTENDS Hist1D, Json, IOUtils

Trace == ndJsonDeserialize(IOEnv.TRACE_FILE)

VARIABLE l
tvars == <<h, ghost, calls, l>>

BatchOf(ev) == [i \in 1..Len(ev.batch) |-> <<ev.batch[i][1], ev.batch[i][2]>>]
BinsOf(ev) == [i \in 1..Len(ev.bins) |-> <<ev.bins[i][1], ev.bins[i][2]>>]
Num(x) == x      \* the recorder writes Unknown (-99999) for a counter that reads NaN

(* the observed public state must be the specification's state (under/overflow of gapped bins may read unknown early) *)
Matches(ev) ==
    /\ h'.freq = ev.freq
    /\ h'.err2 = ev.err2
    /\ IF Consecutive(h'.bins) \/ h'.under = Unknown
       THEN h'.under = Num(ev.under) /\ h'.over = Num(ev.over)
       ELSE (Num(ev.under) \in {Unknown, h'.under}) /\ (Num(ev.over) \in {Unknown, h'.over})

TraceInit == Init /\ l = 1

TraceConstruct ==
    /\ Trace[l].op = "construct"
    /\ h' = [DepositAll(Empty(BinsOf(Trace[l]), Trace[l].keep), BatchOf(Trace[l])) EXCEPT !.weighted = Trace[l].weighted]
    /\ ghost' = GOfSeq(BatchOf(Trace[l]))
    /\ calls' = 0
    /\ Matches(Trace[l])

TraceFill ==
    /\ Trace[l].op = "fill"
    /\ Fill(Trace[l].batch[1][1], Trace[l].batch[1][2], Trace[l].ret)
    /\ Matches(Trace[l])

TraceFillN ==
    /\ Trace[l].op = "filln"
    /\ FillN(BatchOf(Trace[l]), TRUE)
    /\ Matches(Trace[l])

TraceNext ==
    /\ l <= Len(Trace)
    /\ l' = l + 1
    /\ (TraceConstruct \/ TraceFill \/ TraceFillN)

TraceSpec == TraceInit /\ [][TraceNext]_tvars
=============================================================================
