SPECIFICATION TraceSpec
CONSTANTS
  Layouts = {}
  Positions = {}
  Weights = {}
  UBatches = {}
  WBatches = {}
  MaxDepth = 1000000
CHECK_DEADLOCK FALSE
INVARIANT BinContents
INVARIANT SquaredErrors
INVARIANT Accounting
INVARIANT GapCountsNowhere
INVARIANT EntryPathIrrelevant
