---------------------------- MODULE MC_HistPool_c10q ----------------------------
EXTENDS HistPool
L5 == << <<2, 4>>, <<4, 8>>, <<8, 10>>, <<10, 16>>, <<16, 18>> >>
L4g == << <<2, 4>>, <<4, 6>>, <<8, 10>>, <<10, 12>> >>
L1 == << <<2, 6>> >>
L3 == << <<2, 4>>, <<4, 6>>, <<6, 12>> >>
MCSeeds == {
  [L |-> L5, keep |-> TRUE, batch |-> << <<3, 1>>, <<5, 2>>, <<9, 3>>, <<11, 4>>, <<17, 5>>, <<1, 1>>, <<19, 2>> >>, weighted |-> TRUE, dtype |-> "i8", den |-> 1, name |-> 1],
  [L |-> L4g, keep |-> TRUE, batch |-> << <<3, 1>>, <<5, 2>>, <<9, 3>>, <<11, 4>>, <<7, 1>> >>, weighted |-> TRUE, dtype |-> "f8", den |-> 2, name |-> 1],
  [L |-> L1, keep |-> TRUE, batch |-> << <<3, 1>> >>, weighted |-> FALSE, dtype |-> "i8", den |-> 1, name |-> 1],
  [L |-> L3, keep |-> FALSE, batch |-> << <<3, 1>>, <<5, 1>>, <<5, 1>>, <<7, 1>> >>, weighted |-> FALSE, dtype |-> "i8", den |-> 1, name |-> 2]
}
MCIds == 1..2
MCOps == {"New", "Merge", "MergeRefused", "MergeFracRefused", "MergeMinFreq", "SetFreqHalf"}
MCSliceArgs == {<<1, NoneIx>>}
MCTakeArgs == {<<0>>}
MCScalars == {<<2, 1, "pyint">>}
=============================================================================
