---------------------------- MODULE MC_HistND_c02t ----------------------------
EXTENDS HistND
A1  == << <<2, 4>>, <<4, 6>> >>
A2  == << <<2, 4>>, <<4, 8>>, <<8, 10>> >>
A1g == << <<2, 4>>, <<6, 8>> >>
\* <<A1, A1>>: equal edges on both axes, told apart only by their right-edge declarations
MCAxisLayouts == { <<A1, A2>>, <<A1g, A2>>, <<A2, A1>>, <<A1, A1>> }
MCRIncl == { <<TRUE, TRUE>>, <<TRUE, FALSE>>, <<FALSE, TRUE>>, <<FALSE, FALSE>> }
\* x: below / inside / inner edge / gap or inside / last edge of A1 / above A1 ; y: inside / edge / last edge of A2 / above
MCRows == { <<1, 3>>, <<3, 3>>, <<4, 8>>, <<5, 5>>, <<6, 10>>, <<6, 3>>, <<3, 10>>, <<7, 9>>, <<8, 6>>, <<3, 11>>, <<10, 6>>, <<3, 6>>, <<6, 6>>, <<NaN, 3>>, <<3, NaN>> }
MCWeights == {1, 2, 3}
UE == {<<r, 1>> : r \in MCRows}
WE == {<<r, w>> : r \in {<<3, 3>>, <<6, 10>>, <<1, 3>>, <<5, 5>>, <<NaN, 3>>, <<8, 6>>}, w \in {1, 2}}
MCUBatches == {<<>>} \cup {<<e>> : e \in UE} \cup {<<e1, e2>> : e1 \in UE, e2 \in {<<<<3, 3>>, 1>>, <<<<6, 10>>, 1>>, <<<<3, NaN>>, 1>>}}
MCWBatches == {<<>>} \cup {<<e>> : e \in WE} \cup {<<e1, e2>> : e1 \in WE, e2 \in {<<<<3, 3>>, 2>>, <<<<6, 10>>, 1>>, <<<<NaN, 3>>, 2>>}}
MCOps == {"NewEmpty", "Construct", "Fill", "FillN", "FindBin"}
MCScaleArgs == {<<2, 1>>}
MCCellArgs == {}
MCRetCands == {NoneRet} \cup {<<i, j>> : i \in 0..2, j \in 0..2}
MCProjAxes == {<<1>>}
MCMergeArgs == {<<2, 1>>}
MCIndexArgs == {<< <<"i", 0>> >>}
=============================================================================
