------------------------------ MODULE PhystPlot ------------------------------
(***************************************************************************)
(* Plots show exactly the histogram's data and never modify it (C20).      *)
(*                                                                         *)
(* The state is the histogram being plotted (1-D record [bins, freq, err2, *)
(* name, axis] or 2-D record [xbins, ybins, freq]).  A plot is an action   *)
(* that leaves the state unchanged and whose parameter `marks` is the      *)
(* sequence of marks the statement demands, computed here in exact         *)
(* rationals <<num, den>>:                                                 *)
(*   bars   <<left, width, height>>       points <<centre2 (twice), height>>*)
(*   steps  heights over the edges        cells  <<x, y, dx, dy, value>>   *)
(* heights are frequencies, densities (density) or running sums            *)
(* (cumulative; with density the running sums of the normalised contents). *)
(* Error bars are carried as squared errors (err2, divided by width^2 for  *)
(* densities).                                                             *)
(***************************************************************************)
EXTENDS PhystCore, TLC

CONSTANTS Subjects1,   \* 1-D records [bins, freq, err2, name, axis]
          Subjects2,   \* 2-D records [xbins, ybins, freq]  (freq: seq of rows)
          TickArgs,    \* set of <<unit seconds, lo, hi>> for the time-tick helper
          MaxDepth

VARIABLES h, calls
vars == <<h, calls>>
Null == [null |-> TRUE]
Live == calls < MaxDepth /\ calls' = calls + 1

Width(b) == Right(b) - Left(b)
RunSum(s, i) == SumSeq(SubSeq(s, 1, i))

(* height of bin i as a rational *)
Height(x, i, density, cumulative) ==
    IF ~density /\ ~cumulative THEN <<x.freq[i], 1>>
    ELSE IF density /\ ~cumulative THEN <<x.freq[i], Width(x.bins[i])>>
    ELSE IF ~density /\ cumulative THEN <<RunSum(x.freq, i), 1>>
    ELSE <<RunSum(x.freq, i), SumSeq(x.freq)>>

Heights(x, d, c) == [i \in 1..Len(x.bins) |-> Height(x, i, d, c)]
Bars(x, d, c) == [i \in 1..Len(x.bins) |-> <<Left(x.bins[i]), Width(x.bins[i]), Height(x, i, d, c)>>]
Points(x, d, c) == [i \in 1..Len(x.bins) |-> <<Left(x.bins[i]) + Right(x.bins[i]), Height(x, i, d, c)>>]
(* squared error-bar half-lengths: err2, or err2 / width^2 for densities *)
Err2Marks(x, d) == [i \in 1..Len(x.bins) |-> <<x.err2[i], IF d THEN Width(x.bins[i]) * Width(x.bins[i]) ELSE 1>>]

Cells(x, density, showZero) ==
    LET all == [k \in 1..(Len(x.xbins) * Len(x.ybins)) |->
                   LET i == ((k - 1) \div Len(x.ybins)) + 1  j == ((k - 1) % Len(x.ybins)) + 1 IN
                   <<Left(x.xbins[i]), Left(x.ybins[j]), Width(x.xbins[i]), Width(x.ybins[j]),
                     <<x.freq[i][j], IF density THEN Width(x.xbins[i]) * Width(x.ybins[j]) ELSE 1>> >>]
    IN  SelectSeq(all, LAMBDA c : showZero \/ c[5][1] # 0)

(* ticks at the multiples of the unit inside [lo, hi] *)
Ticks(unit, lo, hi) ==
    LET first == IF lo % unit = 0 THEN lo \div unit ELSE (lo \div unit) + 1
        last == hi \div unit
    IN  [k \in 1..(IF last >= first THEN last - first + 1 ELSE 0) |-> (first + k - 1) * unit]

Init == h = Null /\ calls = 0
Pick(s) == /\ Live /\ h = Null /\ h' = s

Is1D == h # Null /\ "bins" \in DOMAIN h
Is2D == h # Null /\ "xbins" \in DOMAIN h

(* 1-D plots: backend x kind; marks are bars or points or step heights *)
Plot1D(backend, kind, density, cumulative, errors, marks, errs) ==
    /\ Live /\ Is1D
    /\ ~(errors /\ cumulative)
    /\ (density /\ cumulative) => SumSeq(h.freq) > 0
    /\ marks = IF kind = "bar" THEN Bars(h, density, cumulative)
               ELSE IF kind = "step" THEN Heights(h, density, cumulative)
               ELSE Points(h, density, cumulative)
    /\ errs = IF errors THEN Err2Marks(h, density) ELSE <<>>
    /\ UNCHANGED h

(* 2-D map: one cell per bin at the bin's position; zero cells only with show_zero *)
Plot2D(backend, kind, density, showZero, cells) ==
    /\ Live /\ Is2D
    /\ cells = Cells(h, density, showZero)
    /\ UNCHANGED h

(* a plot kind of the wrong dimension, an unknown kind or an unknown backend is refused *)
PlotRefused(why) ==
    /\ Live /\ h # Null
    /\ why \in {"dim", "kind", "backend"}
    /\ UNCHANGED h

(* the time-tick helper *)
TimeTicks(unit, lo, hi, ticks) ==
    /\ Live /\ Is1D
    /\ ticks = Ticks(unit, lo, hi)
    /\ UNCHANGED h

Kinds1 == {<<"matplotlib", "bar">>, <<"matplotlib", "scatter">>, <<"matplotlib", "line">>, <<"matplotlib", "fill">>, <<"matplotlib", "step">>,
           <<"plotly", "bar">>, <<"plotly", "scatter">>, <<"plotly", "line">>, <<"ascii", "hbar">>}
MarksFor(kind, x, d, c) == IF kind = "bar" THEN Bars(x, d, c) ELSE IF kind = "step" THEN Heights(x, d, c) ELSE Points(x, d, c)

Next ==
    \/ \E s \in Subjects1 \cup Subjects2 : Pick(s)
    \/ \E s \in Subjects1, bk \in Kinds1, d, c, e \in BOOLEAN :
          \E m \in {MarksFor(bk[2], s, d, c)}, er \in {IF e THEN Err2Marks(s, d) ELSE <<>>} : Plot1D(bk[1], bk[2], d, c, e, m, er)
    \/ \E s \in Subjects2, bk \in {<<"matplotlib", "map">>, <<"matplotlib", "image">>, <<"plotly", "map">>}, d, z \in BOOLEAN :
          \E cl \in {Cells(s, d, z)} : Plot2D(bk[1], bk[2], d, z, cl)
    \/ \E why \in {"dim", "kind", "backend"} : PlotRefused(why)
    \/ \E a \in TickArgs : \E t \in {Ticks(a[1], a[2], a[3])} : TimeTicks(a[1], a[2], a[3], t)

Spec == Init /\ [][Next]_vars

(* C20: plotting never modifies the histogram. *)
PlotIsPure == [][h # Null => h' = h]_vars

(* C20: the running sums end at the total; bars tile the bins. *)
MarkLaws ==
    \A s \in Subjects1 :
        /\ Height(s, Len(s.bins), FALSE, TRUE)[1] = SumSeq(s.freq)
        /\ \A i \in 1..Len(s.bins) : Bars(s, FALSE, FALSE)[i][1] + Bars(s, FALSE, FALSE)[i][2] = Right(s.bins[i])
TickLaws ==
    \A a \in TickArgs : \A i \in 1..Len(Ticks(a[1], a[2], a[3])) :
        LET t == Ticks(a[1], a[2], a[3])[i] IN t % a[1] = 0 /\ t >= a[2] /\ t <= a[3]
=============================================================================
