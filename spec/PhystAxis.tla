---------------------------- MODULE PhystAxis ----------------------------
(***************************************************************************)
(* The axis algebra of adaptive fixed-width binnings (used by              *)
(* PhystAdaptive; the lemmas of PhystAdaptiveProof are about exactly these *)
(* definitions).                                                           *)
(***************************************************************************)
EXTENDS Integers

(* An axis is [tmin, count]; count = 0 means "no bin yet". *)
NoAxis(gr) == [tmin |-> 0, count |-> 0, grid |-> gr]     \* grid: which (width, shift) grid the axis lives on
GrowAxis(ax, k) ==
    IF ax.count = 0 THEN [tmin |-> k, count |-> 1, grid |-> ax.grid]
    ELSE LET lo == IF k < ax.tmin THEN k ELSE ax.tmin
             hi == IF k > ax.tmin + ax.count - 1 THEN k ELSE ax.tmin + ax.count - 1
         IN  [tmin |-> lo, count |-> hi - lo + 1, grid |-> ax.grid]

(* Union of two axes on the common grid (adaptive addition). *)
UnionAxis(a, b) ==
    IF b.count = 0 THEN a ELSE IF a.count = 0 THEN b
    ELSE GrowAxis(GrowAxis(a, b.tmin), b.tmin + b.count - 1)

InAxis(ax, k) == ax.count > 0 /\ k >= ax.tmin /\ k <= ax.tmin + ax.count - 1
=============================================================================
