SPECIFICATION TraceSpec
CONSTANTS
  AxisLayouts = {}
  RInclChoices = {}
  Rows = {}
  Weights = {}
  UBatches = {}
  WBatches = {}
  Ops = {"Fill", "FillN"}
  MaxDepth = 1000000
  ProjAxes = {}
  MergeArgs = {}
  ScaleArgs = {}
  MinFreqs = {}
  CellArgs = {}
  RetCands = {}
  IndexArgs = {}
CHECK_DEADLOCK FALSE
INVARIANT CellContents
INVARIANT MissedAccounting
INVARIANT NoKeepNoMissed
INVARIANT ShapesMatch
