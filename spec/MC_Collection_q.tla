---------------------------- MODULE MC_Collection_q ----------------------------
EXTENDS PhystCollection
MCL == << <<2, 4>>, <<4, 6>>, <<6, 8>> >>
MCLOther == << <<2, 4>>, <<4, 8>> >>
\* data of a member: unweighted counts, integer weights, half-integer weights (den 2, float contents), values outside the bins
MCSeeds == {
  [batch |-> << <<3, 1>>, <<5, 1>>, <<7, 1>>, <<7, 1>> >>, weighted |-> FALSE, den |-> 1, name |-> 1],
  [batch |-> << <<3, 2>>, <<5, 1>>, <<7, 1>>, <<9, 1>> >>, weighted |-> TRUE,  den |-> 1, name |-> 2],
  [batch |-> << <<3, 1>>, <<5, 3>>, <<7, 2>>, <<1, 1>> >>, weighted |-> TRUE,  den |-> 2, name |-> 1],
  [batch |-> << <<5, 1>> >>,                               weighted |-> FALSE, den |-> 1, name |-> 3]
}
MCOps == {"NewColl", "FromMembers", "FromMembersRefused", "Create", "AddMember", "AddRefused", "GetByName", "GetByNameRefused",
          "Sum", "FillSum", "CopyColl", "JsonRoundTrip", "FillMember", "NormalizeAll", "NormalizeBins", "Eq", "DropD", "DropS"}
=============================================================================
