SPECIFICATION Spec
CONSTANTS
  Ids <- MCIds
  Seeds <- MCSeeds
  Ops <- MCOps
  Scalars <- MCScalars
  FillPos = {3}
  FillW = {1}
  SetDtypes = {"i2", "i8"}
  SliceArgs <- MCSliceArgs
  MergeArgs = {2}
  TakeArgs <- MCTakeArgs
  EdgeVals = {0}
  MinFreqs = {2}
  MaxDepth = 5
  MaxVal = 100000
CHECK_DEADLOCK FALSE
INVARIANT WellFormed
INVARIANT IntHoldsInts
PROPERTY Independence
PROPERTY RefusalIsNoOp
