SPECIFICATION Spec
CONSTANTS
  Dims = {1, 2}
  Indices <- MCIndices
  Classes = {"L", "M", "H"}
  Weights = {1, 2}
  Prefills <- MCPrefills
  Batches <- MCBatches
  Ids = {1}
  Ops = {"NewEmpty", "NewFilled", "Fill", "FillN", "FillRefused"}
  MaxDepth = 4
CHECK_DEADLOCK FALSE
INVARIANT NothingMissed
INVARIANT TightSpan
INVARIANT EqualsFixed
PROPERTY ContentsStayPut
PROPERTY Independence
