---------------------------- MODULE MC_HistPool_c11q ----------------------------
EXTENDS HistPool
L4 == << <<2, 4>>, <<4, 8>>, <<8, 10>>, <<10, 16>> >>
L3g == << <<2, 4>>, <<6, 8>>, <<8, 10>> >>
L1 == << <<2, 6>> >>
MCSeeds == {
  [L |-> L4, keep |-> TRUE, batch |-> << <<3, 1>>, <<5, 2>>, <<9, 3>>, <<11, 4>>, <<1, 5>>, <<17, 6>> >>, weighted |-> TRUE, dtype |-> "i8", den |-> 1, name |-> 1],
  [L |-> L3g, keep |-> TRUE, batch |-> << <<3, 1>>, <<7, 2>>, <<9, 3>> >>, weighted |-> TRUE, dtype |-> "f8", den |-> 2, name |-> 2],
  [L |-> L1, keep |-> TRUE, batch |-> << <<3, 1>> >>, weighted |-> FALSE, dtype |-> "i8", den |-> 1, name |-> 1],
  [L |-> L4, keep |-> FALSE, batch |-> << <<3, 1>>, <<5, 1>>, <<9, 1>>, <<1, 1>> >>, weighted |-> FALSE, dtype |-> "i8", den |-> 1, name |-> 1]
}
MCIds == 1..2
MCOps == {"New", "Slice", "GetBin", "Take", "TakeUnsorted", "IndexRefused"}
Ix == {NoneIx, -5, -4, -3, -2, -1, 0, 1, 2, 3, 4, 5}
MCSliceArgs == Ix \X Ix
MCTakeArgs == UNION {[1..m -> -4..3] : m \in 1..2} \cup [1..3 -> 0..3] \cup {<<0, 2, -1>>, <<-1, -3, 1>>, <<1, -4, 2>>}
MCScalars == {<<2, 1, "pyint">>}
=============================================================================
