--------------------------- MODULE PhystAdaptive ---------------------------
(***************************************************************************)
(* Adaptive fixed-width histograms in index space (1..3 axes).             *)
(*                                                                         *)
(* Bin k of an axis is the interval [k*w + s, (k+1)*w + s): the abstract   *)
(* position of a value on an axis is its grid index k (the embedding turns *)
(* it into a float lying at the left edge, in the middle or one ulp below  *)
(* the right edge of float-grid bin k).  The bins of an axis are           *)
(* tmin .. tmin+count-1 and grow to contain every index ever entered.      *)
(* Contents are attached to absolute grid cells, so "contents recorded     *)
(* earlier stay attached to the same interval" is how the state is written *)
(* and what the conformance engine compares.                               *)
(*                                                                         *)
(* Serves C04, the adaptive branches of C05 and C12.                       *)
(***************************************************************************)
EXTENDS Integers, Sequences, FiniteSets, SequencesExt, FiniteSetsExt, TLC, PhystAxis

CONSTANTS Dims,        \* set of dimensions to explore, e.g. {1, 2}
          Indices,     \* grid indices a coordinate may take
          Classes,     \* position classes inside a grid bin: "L", "M", "H"
          Weights,
          Prefills,    \* set of batches (sequences of <<cell, cls, w>>) used to construct a pre-filled histogram
          Batches,     \* batches for fill_n
          Ids, Ops, MaxDepth

VARIABLES pool,        \* [Ids -> adaptive histogram | Null]
          ghost,       \* [Ids -> bag {<<cell, w, multiplicity>>}]
          calls

vars == <<pool, ghost, calls>>
Null == [null |-> TRUE]
Live == calls < MaxDepth /\ calls' = calls + 1
On(op) == op \in Ops
Sliced(i) == pool[i] # Null /\ "sliced" \in DOMAIN pool[i]       \* a selection i[a:b]: an ordinary (non-adaptive) histogram, only looked at
Has(i) == pool[i] # Null /\ ~Sliced(i)
Free(k) == pool[k] = Null

SumOver(S, Op(_)) == FoldSet(LAMBDA x, acc : acc + Op(x), 0, S)

(* axes: NoAxis, GrowAxis, UnionAxis, InAxis come from PhystAxis *)
Empty(dim) == [axes |-> [a \in 1..dim |-> NoAxis(a)], cont |-> {}, w8d |-> FALSE]

(* cont: set of <<cell, freq, err2>> with freq > 0 *)
ContAdd(cont, cell, w) ==
    IF \E t \in cont : t[1] = cell
    THEN LET t == CHOOSE t \in cont : t[1] = cell IN (cont \ {t}) \cup {<<cell, t[2] + w, t[3] + w * w>>}
    ELSE cont \cup {<<cell, w, w * w>>}

Deposit(h, cell, w) ==
    [h EXCEPT !.axes = [a \in 1..Len(h.axes) |-> GrowAxis(h.axes[a], cell[a])],
              !.cont = ContAdd(h.cont, cell, w),
              !.w8d = @ \/ w # 1]

DepositAll(h, batch) == FoldLeft(LAMBDA acc, e : Deposit(acc, e[1], e[3]), h, batch)

GAdd(bag, cell, w) ==
    IF \E t \in bag : t[1] = cell /\ t[2] = w
    THEN LET t == CHOOSE t \in bag : t[1] = cell /\ t[2] = w IN (bag \ {t}) \cup {<<cell, w, t[3] + 1>>}
    ELSE bag \cup {<<cell, w, 1>>}
GAddAll(bag, batch) == FoldLeft(LAMBDA b, e : GAdd(b, e[1], e[3]), bag, batch)
GUnion(a, b) ==
    LET keys == {<<t[1], t[2]>> : t \in a \cup b}
        cnt(S, k) == IF \E t \in S : t[1] = k[1] /\ t[2] = k[2] THEN (CHOOSE t \in S : t[1] = k[1] /\ t[2] = k[2])[3] ELSE 0
    IN  {<<k[1], k[2], cnt(a, k) + cnt(b, k)>> : k \in keys}

Untracked == {<<"untracked">>}       \* the data behind a derived histogram is not tracked
Tracked(i) == ghost[i] # {} /\ ghost[i] # Untracked
GAdd2(bag, cell, w) == IF bag = Untracked THEN Untracked ELSE GAdd(bag, cell, w)
GAddAll2(bag, batch) == IF bag = Untracked THEN Untracked ELSE GAddAll(bag, batch)
GUnion2(a, b) == IF a = Untracked \/ b = Untracked THEN Untracked ELSE GUnion(a, b)

BatchDim(batch, dim) == \A i \in 1..Len(batch) : Len(batch[i][1]) = dim

---------------------------------------------------------------------------
Init == pool = [i \in Ids |-> Null] /\ ghost = [i \in Ids |-> {}] /\ calls = 0

(* h1(None, "fixed_width", bin_width=w, adaptive=True) / h(None, ..., dim=d) *)
NewEmpty(k, dim) ==
    /\ Live /\ On("NewEmpty") /\ Free(k) /\ \A j \in Ids : j < k => pool[j] # Null
    /\ pool' = [pool EXCEPT ![k] = Empty(dim)]
    /\ UNCHANGED ghost

(* h1(data, "fixed_width", bin_width=w, adaptive=True): pre-filled *)
NewFilled(k, dim, batch) ==
    /\ Live /\ On("NewFilled") /\ Free(k) /\ \A j \in Ids : j < k => pool[j] # Null
    /\ Len(batch) > 0 /\ BatchDim(batch, dim)
    /\ pool' = [pool EXCEPT ![k] = DepositAll(Empty(dim), batch)]
    /\ ghost' = [ghost EXCEPT ![k] = GAddAll({}, batch)]

(* h.fill(value, weight): returns the index of the bin (in the grown binning) *)
Fill(i, cell, cls, w) ==
    /\ Live /\ On("Fill") /\ Has(i) /\ Len(cell) = Len(pool[i].axes)
    /\ pool' = [pool EXCEPT ![i] = Deposit(pool[i], cell, w)]
    /\ ghost' = [ghost EXCEPT ![i] = GAdd2(ghost[i], cell, w)]

(* h.fill_n(values, weights) *)
FillN(i, batch) ==
    /\ Live /\ On("FillN") /\ Has(i) /\ BatchDim(batch, Len(pool[i].axes))
    /\ pool' = [pool EXCEPT ![i] = DepositAll(pool[i], batch)]
    /\ ghost' = [ghost EXCEPT ![i] = GAddAll2(ghost[i], batch)]

(* a call that must be refused: a value with one coordinate too few / too many, a scalar for a 2-axis or a vector for a  *)
(* 1-axis histogram, weights of the wrong length.  The value lies at grid index k (possibly outside the present bins):   *)
(* nothing may change, in particular no axis may have been extended before the call raised.                             *)
FillRefused(i, k, how) ==
    /\ Live /\ On("FillRefused") /\ Has(i)
    /\ how \in {"fill_short", "fill_long", "fill_n_width", "fill_n_weights"}
    /\ UNCHANGED <<pool, ghost>>

(* Members of a HistogramCollection over ONE adaptive binning (1-D): c.create(name, data), member.fill, member.fill_n.   *)
(* The binning is shared, so whenever one member makes it grow every member spans the union of all ranges (contents stay *)
(* attached to their intervals, the new bins of the other members are empty).                                           *)
LiveIds(p) == {i \in Ids : p[i] # Null}
UnionAll(p) == FoldSet(LAMBDA i, acc : UnionAxis(acc, p[i].axes[1]), NoAxis(1), LiveIds(p))
Shared(p) == [i \in Ids |-> IF p[i] = Null THEN Null ELSE [p[i] EXCEPT !.axes = <<UnionAll(p)>>]]
AllOneAxis == \A i \in Ids : Has(i) => Len(pool[i].axes) = 1

CollCreate(k, batch) ==
    /\ Live /\ On("CollCreate") /\ Free(k) /\ \A j \in Ids : j < k => Has(j)
    /\ AllOneAxis /\ Len(batch) > 0 /\ BatchDim(batch, 1)
    /\ pool' = Shared([pool EXCEPT ![k] = DepositAll(Empty(1), batch)])
    /\ ghost' = [ghost EXCEPT ![k] = GAddAll({}, batch)]

CollFill(i, cell, cls, w) ==
    /\ Live /\ On("CollFill") /\ Has(i) /\ AllOneAxis /\ Len(cell) = 1
    /\ pool' = Shared([pool EXCEPT ![i] = Deposit(pool[i], cell, w)])
    /\ ghost' = [ghost EXCEPT ![i] = GAdd2(ghost[i], cell, w)]

CollFillN(i, batch) ==
    /\ Live /\ On("CollFillN") /\ Has(i) /\ AllOneAxis /\ BatchDim(batch, 1)
    /\ pool' = Shared([pool EXCEPT ![i] = DepositAll(pool[i], batch)])
    /\ ghost' = [ghost EXCEPT ![i] = GAddAll2(ghost[i], batch)]

(* k = i[a:b] (1-D, 0 <= a < b <= bin count): the bins a..b-1 of i as they are NOW, with their contents; what was cut off goes *)
(* to under/overflow, so the selection is marked `sliced` (its missed counters are C11's business, not checked here).       *)
SliceA(i, a, b, k) ==
    /\ Live /\ On("SliceA") /\ Has(i) /\ Free(k) /\ \A j \in Ids : j < k => pool[j] # Null
    /\ Len(pool[i].axes) = 1 /\ a >= 0 /\ a < b /\ b <= pool[i].axes[1].count
    /\ LET ax == pool[i].axes[1]
           lo == ax.tmin + a
           hi == ax.tmin + b - 1
       IN  pool' = [pool EXCEPT ![k] = [axes |-> <<[tmin |-> lo, count |-> b - a, grid |-> ax.grid]>>,
                                        cont |-> {t \in pool[i].cont : t[1][1] >= lo /\ t[1][1] <= hi},
                                        w8d |-> pool[i].w8d, sliced |-> TRUE]]
    /\ ghost' = [ghost EXCEPT ![k] = Untracked]

(* k = i + j: bins are extended to the union of both ranges on the common grid, nothing is lost *)
PlusA(a, b) ==
    [axes |-> [x \in 1..Len(a.axes) |-> UnionAxis(a.axes[x], b.axes[x])],
     cont |-> LET cells == {t[1] : t \in a.cont \cup b.cont}
                  f(S, c) == IF \E t \in S : t[1] = c THEN (CHOOSE t \in S : t[1] = c) ELSE <<c, 0, 0>>
              IN  {<<c, f(a.cont, c)[2] + f(b.cont, c)[2], f(a.cont, c)[3] + f(b.cont, c)[3]>> : c \in cells},
     w8d |-> a.w8d \/ b.w8d]

SameGrids(a, b) == Len(a.axes) = Len(b.axes) /\ \A x \in 1..Len(a.axes) : a.axes[x].grid = b.axes[x].grid

Add(i, j, k) ==
    /\ Live /\ On("Add") /\ Has(i) /\ Has(j) /\ Free(k) /\ SameGrids(pool[i], pool[j])
    /\ pool' = [pool EXCEPT ![k] = PlusA(pool[i], pool[j])]
    /\ ghost' = [ghost EXCEPT ![k] = GUnion2(ghost[i], ghost[j])]

IAdd(i, j) ==
    /\ Live /\ On("IAdd") /\ Has(i) /\ Has(j) /\ i # j /\ SameGrids(pool[i], pool[j])
    /\ pool' = [pool EXCEPT ![i] = PlusA(pool[i], pool[j])]
    /\ ghost' = [ghost EXCEPT ![i] = GUnion2(ghost[i], ghost[j])]

(* k = i.copy() *)
Copy(i, k) ==
    /\ Live /\ On("Copy") /\ Has(i) /\ Free(k)
    /\ pool' = [pool EXCEPT ![k] = pool[i]]
    /\ ghost' = [ghost EXCEPT ![k] = ghost[i]]

(* k = i.projection(axis) of a 2-axis histogram (C12: must be independent of later growth of i) *)
Project(i, ax, k) ==
    /\ Live /\ On("Project") /\ Has(i) /\ Free(k) /\ Len(pool[i].axes) = 2 /\ ax \in 1..2
    /\ pool' = [pool EXCEPT ![k] =
         [axes |-> <<pool[i].axes[ax]>>,
          cont |-> LET cs == {<<t[1][ax]>> : t \in pool[i].cont}
                   IN  {<<c, SumOver({t \in pool[i].cont : t[1][ax] = c[1]}, LAMBDA t : t[2]),
                            SumOver({t \in pool[i].cont : t[1][ax] = c[1]}, LAMBDA t : t[3])>> : c \in cs},
          w8d |-> pool[i].w8d]]
    /\ ghost' = [ghost EXCEPT ![k] = Untracked]

Next ==
    \/ \E k \in Ids, d \in Dims : NewEmpty(k, d)
    \/ \E k \in Ids, d \in Dims, b \in Prefills : NewFilled(k, d, b)
    \/ \E i \in Ids, cell \in [1..1 -> Indices] \cup [1..2 -> Indices], cls \in Classes, w \in Weights : Fill(i, cell, cls, w)
    \/ \E i \in Ids, b \in Batches : FillN(i, b)
    \/ \E i \in Ids, k \in Indices, how \in {"fill_short", "fill_long", "fill_n_width", "fill_n_weights"} : FillRefused(i, k, how)
    \/ \E k \in Ids, b \in Prefills : CollCreate(k, b)
    \/ \E i \in Ids, cell \in [1..1 -> Indices], cls \in Classes, w \in Weights : CollFill(i, cell, cls, w)
    \/ \E i \in Ids, b \in Batches : CollFillN(i, b)
    \/ \E i, k \in Ids, a, b \in 0..4 : SliceA(i, a, b, k)
    \/ \E i, j, k \in Ids : Add(i, j, k)
    \/ \E i, j \in Ids : IAdd(i, j)
    \/ \E i, k \in Ids : Copy(i, k)
    \/ \E i, k \in Ids, ax \in 1..2 : Project(i, ax, k)

Spec == Init /\ [][Next]_vars

---------------------------------------------------------------------------
Total(h) == SumOver(h.cont, LAMBDA t : t[2])
GWeight(bag) == SumOver(bag, LAMBDA t : t[2] * t[3])

(* C04: every value entered lies inside a bin and total = total weight entered (nothing missed). *)
NothingMissed ==
    \A i \in Ids : (Has(i) /\ Tracked(i)) =>
        /\ Total(pool[i]) = GWeight(ghost[i])
        /\ \A t \in ghost[i] : \A a \in 1..Len(pool[i].axes) : InAxis(pool[i].axes[a], t[1][a])

(* C04: bins span exactly from the lowest to the highest bin ever needed. *)
TightSpan ==
    \A i \in Ids : (Has(i) /\ Tracked(i)) =>
        \A a \in 1..Len(pool[i].axes) :
            /\ pool[i].axes[a].tmin = Min({t[1][a] : t \in ghost[i]})
            /\ pool[i].axes[a].tmin + pool[i].axes[a].count - 1 = Max({t[1][a] : t \in ghost[i]})

(* C04: the result equals a fixed-bin histogram of the same data: content per absolute cell. *)
EqualsFixed ==
    \A i \in Ids : (Has(i) /\ Tracked(i)) =>
        \A t \in pool[i].cont :
            /\ t[2] = SumOver({g \in ghost[i] : g[1] = t[1]}, LAMBDA g : g[2] * g[3])
            /\ t[3] = SumOver({g \in ghost[i] : g[1] = t[1]}, LAMBDA g : g[2] * g[2] * g[3])

(* C04: contents recorded earlier stay attached to the same interval (action property). *)
ContentsStayPut ==
    [][\A i \in Ids : (Has(i) /\ pool'[i] # Null) =>
          \A t \in pool[i].cont : \E u \in pool'[i].cont : u[1] = t[1] /\ u[2] >= t[2] /\ u[3] >= t[3]]_vars

(* C12: an action on one member leaves the others unchanged. *)
Independence == [][Cardinality({i \in Ids : pool'[i] # pool[i]}) <= 1]_vars
=============================================================================
