----------------------------- MODULE PhystRec -----------------------------
(***************************************************************************)
(* Variable-free operators on 1-D histogram records: the exact arithmetic  *)
(* of physt's public operations.                                           *)
(*                                                                         *)
(* A histogram record is                                                   *)
(*   [bins, keep, freq, err2, den, under, over, dtype, st, stv, allIn, name]*)
(* where the content of bin i is freq[i]/den, its squared error            *)
(* err2[i]/den^2, under/overflow are under/den, over/den (or Unknown),     *)
(* st = [w, s1, s2, mn, mx] are the raw-data moments with w, s1, s2 over   *)
(* den, stv \in {"ok", "invalid"} and name is a small integer standing for *)
(* the metadata.                                                           *)
(***************************************************************************)
EXTENDS PhystCore

St0 == [w |-> 0, s1 |-> 0, s2 |-> 0, mn |-> PosInf, mx |-> NegInf]

---------------------------------------------------------------------------
(* dtypes and numpy's promotion table (checked against numpy by the harness) *)
Ints   == {"i2", "i4", "i8"}
Floats == {"f2", "f4", "f8", "f16"}
DTypes == Ints \cup Floats
Rank(d) == CASE d = "i2" -> 1 [] d = "i4" -> 2 [] d = "i8" -> 3
             [] d = "f2" -> 1 [] d = "f4" -> 2 [] d = "f8" -> 3 [] d = "f16" -> 4
IntOfRank(r)   == CASE r = 1 -> "i2" [] r = 2 -> "i4" [] OTHER -> "i8"
FloatOfRank(r) == CASE r = 1 -> "f2" [] r = 2 -> "f4" [] r = 3 -> "f8" [] OTHER -> "f16"
Promote(a, b) ==
    IF a \in Ints /\ b \in Ints THEN IntOfRank(Max2(Rank(a), Rank(b)))
    ELSE IF a \in Floats /\ b \in Floats THEN FloatOfRank(Max2(Rank(a), Rank(b)))
    ELSE LET i == IF a \in Ints THEN a ELSE b
             f == IF a \in Ints THEN b ELSE a
             \* an integer of rank r needs a float of rank r+1 (int16 -> float32, int32/64 -> float64)
             need == IF Rank(i) = 1 THEN 2 ELSE 3
         IN  FloatOfRank(Max2(need, Rank(f)))

IntMax(d) == CASE d = "i2" -> 32767 [] d = "i4" -> 2147483647 [] OTHER -> 2147483647  \* i8: beyond TLC's integers
FloatMaxInt(d) == CASE d = "f2" -> 65504 [] OTHER -> 2147483647

---------------------------------------------------------------------------
(* The histogram physt.h1 builds from a batch of <<position, weight>> entries. *)
EmptyRec(L, keep, dtype) ==
    [bins |-> L, keep |-> keep, freq |-> Zeros(Len(L)), err2 |-> Zeros(Len(L)), den |-> 1,
     \* physt.h1 reports under/overflow of non-consecutive bins as unknown
     under |-> IF keep /\ Consecutive(L) THEN 0 ELSE Unknown, over |-> IF keep /\ Consecutive(L) THEN 0 ELSE Unknown,
     dtype |-> dtype, st |-> St0, stv |-> "ok", allIn |-> TRUE, name |-> 0,
     prec |-> 0]   \* 0: every float operation so far was exact; 1/2/3: some float64/float32/float16 rounding happened

DepositR(h, p, w) ==
    LET n == Len(h.bins)
        b == BinOf(h.bins, p)
    IN  IF b = NaNBin THEN h
        ELSE IF b \in 1..n THEN
            [h EXCEPT !.freq[b] = @ + w, !.err2[b] = @ + w * w,
                      !.st = [w |-> @.w + w, s1 |-> @.s1 + w * p, s2 |-> @.s2 + w * p * p,
                              mn |-> Min2(@.mn, p), mx |-> Max2(@.mx, p)]]
        ELSE IF b = 0 THEN [h EXCEPT !.under = IF @ # Unknown /\ @ # -77777 THEN @ + w ELSE @, !.allIn = FALSE]
        ELSE IF b = n + 1 THEN [h EXCEPT !.over = IF @ # Unknown /\ @ # -77777 THEN @ + w ELSE @, !.allIn = FALSE]
        ELSE [h EXCEPT !.under = Unknown, !.over = Unknown, !.allIn = FALSE]

FromData(L, keep, batch, dtype) ==
    FoldLeft(LAMBDA acc, e : DepositR(acc, e[1], e[2]), EmptyRec(L, keep, dtype), batch)

Values(h) == [i \in 1..Len(h.freq) |-> <<h.freq[i], h.den>>]

Total(h) == SumSeq(h.freq)          \* numerator over h.den

IsIntegral(h) ==
    /\ \A i \in 1..Len(h.freq) : h.freq[i] % h.den = 0 /\ h.err2[i] % (h.den * h.den) = 0

MaxAbs(h) == LET S == {h.freq[i] \div h.den : i \in 1..Len(h.freq)} \cup {h.err2[i] \div (h.den * h.den) : i \in 1..Len(h.freq)} \cup {0}
             IN  Max(S)

(* Bring a record to denominator d (d a multiple of h.den). *)
Rescale(h, d) ==
    LET k == d \div h.den IN
    [h EXCEPT !.den = d,
              !.freq = [i \in 1..Len(h.freq) |-> h.freq[i] * k],
              !.err2 = [i \in 1..Len(h.err2) |-> h.err2[i] * k * k],
              !.under = IF @ = Unknown \/ @ = -77777 THEN @ ELSE @ * k,
              !.over  = IF @ = Unknown \/ @ = -77777 THEN @ ELSE @ * k,
              !.st = [@ EXCEPT !.w = @ * k, !.s1 = @ * k, !.s2 = @ * k]]

Lcm2(a, b) == CHOOSE m \in 1..(a * b) : m % a = 0 /\ m % b = 0 /\ \A k \in 1..(m - 1) : ~(k % a = 0 /\ k % b = 0)

(* Counters: a number, Unknown (reads NaN) or AnyVal (the statement leaves the value open,  *)
(* e.g. the sum of a histogram that tracks missed values and one that does not).           *)
AnyVal == -77777
IsNum(x) == x # Unknown /\ x # AnyVal
AddU(a, b) == IF a = AnyVal \/ b = AnyVal THEN AnyVal ELSE IF a = Unknown \/ b = Unknown THEN Unknown ELSE a + b
SubU(a, b) == IF a = AnyVal \/ b = AnyVal THEN AnyVal ELSE IF a = Unknown \/ b = Unknown THEN Unknown ELSE a - b
MulU(a, k) == IF IsNum(a) THEN a * k ELSE a

StPlus(s, t) == [w |-> s.w + t.w, s1 |-> s.s1 + t.s1, s2 |-> s.s2 + t.s2,
                 mn |-> Min2(s.mn, t.mn), mx |-> Max2(s.mx, t.mx)]

(* a + b for equal bins: contents, squared errors, missed and statistics add. *)
Plus(a0, b0) ==
    LET d == Lcm2(a0.den, b0.den)
        a == Rescale(a0, d)
        b == Rescale(b0, d)
        n == Len(a.freq)
    IN  [a EXCEPT !.freq = [i \in 1..n |-> a.freq[i] + b.freq[i]],
                  !.err2 = [i \in 1..n |-> a.err2[i] + b.err2[i]],
                  !.under = IF a.keep # b.keep THEN AnyVal ELSE AddU(a.under, b.under),
                  !.over  = IF a.keep # b.keep THEN AnyVal ELSE AddU(a.over, b.over),
                  !.dtype = Promote(a.dtype, b.dtype),
                  !.st  = StPlus(a.st, b.st),
                  !.stv = IF a.stv = "ok" /\ b.stv = "ok" THEN "ok" ELSE "invalid",
                  !.allIn = a.allIn /\ b.allIn,
                  !.prec = Max2(a.prec, b.prec),
                  !.name = IF a.name = b.name THEN a.name ELSE 0]

(* a - b (free arithmetics off): contents subtract, squared errors add, statistics become invalid. *)
CanMinus(a0, b0) ==
    LET d == Lcm2(a0.den, b0.den)
        a == Rescale(a0, d)
        b == Rescale(b0, d)
    IN  \A i \in 1..Len(a.freq) : a.freq[i] >= b.freq[i]

Minus(a0, b0) ==
    LET d == Lcm2(a0.den, b0.den)
        a == Rescale(a0, d)
        b == Rescale(b0, d)
        n == Len(a.freq)
    IN  [a EXCEPT !.freq = [i \in 1..n |-> a.freq[i] - b.freq[i]],
                  !.err2 = [i \in 1..n |-> a.err2[i] + b.err2[i]],
                  !.under = IF a.keep # b.keep THEN AnyVal ELSE SubU(a.under, b.under),
                  !.over  = IF a.keep # b.keep THEN AnyVal ELSE SubU(a.over, b.over),
                  !.dtype = Promote(a.dtype, b.dtype),
                  !.stv = "invalid",
                  !.prec = Max2(a.prec, b.prec),
                  !.name = IF a.name = b.name THEN a.name ELSE 0]

(* Lowest terms: divide every numerator and the denominator by their common divisor g     *)
(* (squared errors by g*g), so that equal values are equal records.                        *)
RECURSIVE Gcd(_, _)
Gcd(a, b) == IF b = 0 THEN a ELSE Gcd(b, a % b)
Abs(x) == IF x < 0 THEN -x ELSE x

Reduce(h) ==
    LET n == Len(h.freq)
        nums == {h.freq[i] : i \in 1..n} \cup {Abs(x) : x \in {y \in {h.under, h.over} : IsNum(y)}}
                \cup {h.st.w, Abs(h.st.s1), h.st.s2}
        g0 == FoldSet(LAMBDA x, acc : Gcd(acc, x), h.den, nums)
        \* the largest divisor g of g0 with g*g dividing every squared-error numerator
        ok(g) == g0 % g = 0 /\ \A i \in 1..n : h.err2[i] % (g * g) = 0
        g == CHOOSE c \in 1..g0 : ok(c) /\ \A d \in (c + 1)..g0 : ~ok(d)
    IN  IF g = 1 THEN h ELSE
        [h EXCEPT !.den = @ \div g,
                  !.freq = [i \in 1..n |-> h.freq[i] \div g],
                  !.err2 = [i \in 1..n |-> h.err2[i] \div (g * g)],
                  !.under = IF IsNum(@) THEN @ \div g ELSE @,
                  !.over  = IF IsNum(@) THEN @ \div g ELSE @,
                  !.st = [@ EXCEPT !.w = @ \div g, !.s1 = @ \div g, !.s2 = @ \div g]]

IsPow2(n) == \E k \in 0..30 : n = 2^k
KindPrec(sdtype, q) == IF sdtype = "f4" THEN 2 ELSE IF sdtype = "f2" THEN 3 ELSE IF IsPow2(q) THEN 0 ELSE 1

(* h * (p/q), p >= 0, q > 0: contents and missed scale by p/q, squared errors by (p/q)^2, *)
(* recorded weight scales while mean/variance/min/max are invariant.                      *)
Scale(h, p, q, sdtype) ==
    LET n == Len(h.freq) IN
    Reduce([h EXCEPT !.den = @ * q,
              !.freq = [i \in 1..n |-> h.freq[i] * p],
              !.err2 = [i \in 1..n |-> h.err2[i] * p * p],
              !.under = MulU(@, p),
              !.over  = MulU(@, p),
              !.dtype = Promote(@, sdtype),
              !.prec = Max2(@, KindPrec(sdtype, q)),
              !.st = [@ EXCEPT !.w = @ * p, !.s1 = @ * p, !.s2 = @ * p]])

(* normalize(): divide by the total T/den, i.e. the new denominator is T; percent multiplies by 100. *)
Normalized(h, percent) ==
    LET t == Total(h)
        x == [h EXCEPT !.den = t, !.dtype = Promote(h.dtype, "f8"), !.prec = Max2(@, IF IsPow2(t) /\ IsPow2(h.den) THEN 0 ELSE 1)]
    IN  IF percent THEN [Scale(x, 100, 1, "f8") EXCEPT !.prec = Max2(@, 1)]    \* in place: divides by total * 0.01
        ELSE Reduce(x)

---------------------------------------------------------------------------
(* merge_bins(amount): runs of `amount` adjacent bins; the last run may be shorter. *)
RunCount(n, a) == (n + a - 1) \div a
RunFirst(j, a) == (j - 1) * a + 1
RunLast(j, a, n) == Min2(j * a, n)

CanMerge(bins, a) ==
    \A j \in 1..RunCount(Len(bins), a) :
        \A i \in RunFirst(j, a)..(RunLast(j, a, Len(bins)) - 1) : Right(bins[i]) = Left(bins[i + 1])

MergedBins(bins, a) ==
    [j \in 1..RunCount(Len(bins), a) |-> <<Left(bins[RunFirst(j, a)]), Right(bins[RunLast(j, a, Len(bins))])>>]

SumRange(s, lo, hi) == SumSeq(SubSeq(s, lo, hi))

Merged(h, a) ==
    LET n == Len(h.bins) m == RunCount(n, a) IN
    [h EXCEPT !.bins = MergedBins(h.bins, a),
              !.freq = [j \in 1..m |-> SumRange(h.freq, RunFirst(j, a), RunLast(j, a, n))],
              !.err2 = [j \in 1..m |-> SumRange(h.err2, RunFirst(j, a), RunLast(j, a, n))]]

---------------------------------------------------------------------------
(* Python slice semantics on a sequence of n items (step 1).  NoneIx stands for None. *)
NoneIx == -99
ClampIx(n, i, dflt) == IF i = NoneIx THEN dflt ELSE IF i < 0 THEN Max2(n + i, 0) ELSE Min2(i, n)
SliceLo(n, start) == ClampIx(n, start, 0)          \* 0-based first index
SliceHi(n, stop)  == ClampIx(n, stop, n)           \* 0-based end (exclusive)

Sliced(h, start, stop) ==
    LET n == Len(h.bins)
        lo == SliceLo(n, start)
        hi == SliceHi(n, stop)
    IN  [h EXCEPT !.bins = SubSeq(h.bins, lo + 1, hi),
                  !.freq = SubSeq(h.freq, lo + 1, hi),
                  !.err2 = SubSeq(h.err2, lo + 1, hi),
                  !.under = IF IsNum(@) THEN @ + SumRange(h.freq, 1, lo) ELSE @,
                  !.over  = IF IsNum(@) THEN @ + SumRange(h.freq, hi + 1, n) ELSE @,
                  !.stv = "invalid"]

(* Selection by a strictly increasing list of 0-based indices (masks, index arrays). *)
Taken(h, idx) ==
    [h EXCEPT !.bins = [k \in 1..Len(idx) |-> h.bins[idx[k] + 1]],
              !.freq = [k \in 1..Len(idx) |-> h.freq[idx[k] + 1]],
              !.err2 = [k \in 1..Len(idx) |-> h.err2[idx[k] + 1]],
              !.under = Unknown, !.over = Unknown, !.keep = FALSE,
              !.stv = "invalid"]
=============================================================================
