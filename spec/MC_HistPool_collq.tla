---------------------------- MODULE MC_HistPool_collq ----------------------------
EXTENDS HistPool
LA == << <<2, 4>>, <<4, 6>>, <<6, 10>> >>
LB == << <<2, 4>>, <<4, 8>> >>
MCSeeds == {
  [L |-> LA, keep |-> TRUE,  batch |-> << <<3, 1>>, <<5, 1>>, <<9, 1>>, <<1, 1>> >>, weighted |-> FALSE, dtype |-> "i8", den |-> 1, name |-> 1],
  [L |-> LA, keep |-> TRUE,  batch |-> << <<3, 1>>, <<7, 3>> >>, weighted |-> TRUE,  dtype |-> "f8", den |-> 2, name |-> 2],
  [L |-> LA, keep |-> TRUE,  batch |-> << <<5, 2>>, <<5, 1>>, <<7, 4>>, <<3, 3>> >>, weighted |-> TRUE, dtype |-> "i8", den |-> 1, name |-> 2],
  [L |-> LB, keep |-> TRUE,  batch |-> << <<3, 1>> >>, weighted |-> FALSE, dtype |-> "i8", den |-> 1, name |-> 1]
}
MCIds == 1..3
MCOps == {"New", "CollSum", "CollNormBins", "CollCopyFill", "Fill"}
MCSliceArgs == {<<1, NoneIx>>}
MCTakeArgs == {<<0>>}
MCScalars == {<<2, 1, "pyint">>}
=============================================================================
