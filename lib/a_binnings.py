"""Adapter binding spec/PhystBinnings.tla to physt.binnings."""
from __future__ import annotations

import math
from fractions import Fraction
from typing import Optional

import numpy as np

from .a_hist1d import consecutive
from .a_pool import EXC
from .embed import PosEmb
from .replay import Adapter, Mismatch

NONE_IX = -99
REFUSALS = {"MakeRefused"}


def ulps(a: float, b: float) -> float:
    if a == b:
        return 0.0
    return abs(a - b) / max(np.spacing(abs(b)), 5e-324)


class BinningsAdapter(Adapter):
    name = "PhystBinnings"

    def __init__(self, pe: PosEmb, spelling: int = 0):
        self.pe, self.spelling = pe, spelling
        import physt
        from physt import binnings
        self.physt, self.B = physt, binnings

    def initial(self, state):
        return {}

    def _pairs(self, bins):
        return np.array(self.pe.edges(bins), dtype=float)

    def _edges(self, bins):
        p = self.pe.edges(bins)
        return np.array([p[0][0]] + [x[1] for x in p], dtype=float)

    def _make(self, bins, kind):
        if kind == "static":
            return self.B.StaticBinning(self._pairs(bins))
        if kind == "numpy":
            return self.B.NumpyBinning(self._edges(bins))
        if self.spelling % 2:
            return self.physt.h1(None, self._pairs(bins)).binning
        return self.B.as_binning(self._pairs(bins) if (self.spelling % 3 or not consecutive(bins)) else self._edges(bins))

    def apply(self, real, action, args, pre):
        obs = {"exc": None, "ret": None}
        o = real
        try:
            if action == "Make":
                o["b"] = self._make(*args)
            elif action == "MakeRefused":
                obs["ret"] = self._make(*args)
            elif action == "Copy":
                c = o["b"].copy()
                obs["ret"] = {"eq": bool(c == o["b"]), "same_object": c is o["b"], "req": bool(o["b"] == c)}
                o["b"] = c
            elif action == "AsStatic":
                c = o["b"].as_static()
                obs["ret"] = {"same_object": c is o["b"]}
                o["b"] = c
            elif action == "Slice":
                a, b = args
                o["b"] = o["b"][slice(None if a == NONE_IX else a, None if b == NONE_IX else b)]
            elif action == "EqCheck":
                bins2, result = args
                other = None
                if type(o["b"]).__name__ == "NumpyBinning" and consecutive(bins2):
                    other = self.B.NumpyBinning(self._edges(bins2))
                elif type(o["b"]).__name__ == "FixedWidthBinning":
                    try:
                        other = self.B.StaticBinning(self._pairs(bins2)).as_fixed_width()
                    except EXC:
                        other = None
                if other is None:
                    other = self.B.StaticBinning(self._pairs(bins2))
                    same_class = type(o["b"]).__name__ == "StaticBinning"
                else:
                    same_class = True
                obs["ret"] = {"eq": bool(o["b"] == other), "same_class": same_class}
            elif action == "AsFixedWidth":
                (possible,) = args
                try:
                    c = o["b"].as_fixed_width()
                    obs["ret"] = {"ok": True}
                    o["b"] = c
                except ValueError as ex:
                    obs["ret"] = {"ok": False, "why": str(ex)}
            elif action == "NumpyRule":
                lo, hi, n, edges = args
                x = [self.pe.x(lo), self.pe.x(hi)]
                h_range = self.physt.h1(None, int(n), range=(x[0], x[1]))
                data = np.array([x[0], x[1], (x[0] + x[1]) / 2])
                h_data = self.physt.h1(data, int(n))
                obs["ret"] = {"range": np.asarray(h_range.numpy_bins).tolist(), "data": np.asarray(h_data.numpy_bins).tolist(),
                              "numpy_range": np.histogram_bin_edges([], int(n), range=(x[0], x[1])).tolist(),
                              "numpy_data": np.histogram_bin_edges(data, int(n)).tolist(),
                              "classes": [type(h_range.binning).__name__, type(h_data.binning).__name__]}
            elif action == "PrettyRule":
                mn, mx, count, ws = args
                data = np.array([self.pe.x(mn), self.pe.x(mx)] + [self.pe.x(mn) + (self.pe.x(mx) - self.pe.x(mn)) * 0.37])
                h = self.physt.h1(data, "pretty", bin_count=int(count))
                obs["ret"] = {"width": float(h.binning.bin_width), "edges": np.asarray(h.numpy_bins).tolist(),
                              "under": float(h.underflow), "over": float(h.overflow), "total": float(h.total), "n": len(data)}
            elif action == "QuantileRule":
                x, n, edges = args
                data = np.array([self.pe.x(v) for v in x], dtype=float)
                rng = np.random.default_rng(1)
                if self.spelling % 2:
                    data = rng.permutation(data)
                    h = self.physt.h1(data, "quantile", q=[i / n for i in range(n + 1)])
                else:
                    h = self.physt.h1(data, "quantile", bin_count=int(n))
                obs["ret"] = {"bins": np.asarray(h.bins).tolist(), "total": float(h.total), "n": len(data)}
            elif action == "ExpRule":
                a, c, n, logs = args
                data = np.array([10.0 ** a, 10.0 ** c, 10.0 ** ((a + c) / 2)])
                h = self.physt.h1(data, "exponential", bin_count=int(n))
                obs["ret"] = {"edges": np.asarray(h.numpy_bins).tolist(), "total": float(h.total), "under": float(h.underflow), "over": float(h.overflow)}
            elif action == "CountRule":
                n = args[0]
                data = np.linspace(0, 1, int(n))
                obs["ret"] = {m: int(self.B.ideal_bin_count(data, m)) for m in ("sturges", "sqrt", "rice", "default")}
            else:
                raise RuntimeError("unknown action " + action)
        except EXC as ex:
            if isinstance(ex, RuntimeError) and str(ex).startswith("unknown action"):
                raise
            obs["exc"] = f"{type(ex).__name__}: {ex}"
        return o, obs

    # ------------------------------------------------------------------ compare
    def _cmp_binning(self, bobj, rec, bad, det):
        def fail(f, exp, got):
            bad.append(f)
            det[f] = {"expected": exp, "observed": got}
        L = rec["bins"]
        exp_pairs = self._pairs(L)
        got = np.asarray(bobj.bins, dtype=float)
        if rec["kind"] == "fixed" or rec.get("approx"):
            # a fixed-width binning recomputes its edges from (index, width, shift): equal up to rounding
            same = got.shape == exp_pairs.shape and all(ulps(g, e) <= 2 for g, e in zip(got.ravel(), exp_pairs.ravel()))
            if not same:
                fail("bins", exp_pairs.tolist(), got.tolist())
            if int(bobj.bin_count) != rec["count"] or bool(bobj.is_consecutive()) != rec["consecutive"]:
                fail("bin_count", rec["count"], int(bobj.bin_count))
            return
        if got.shape != exp_pairs.shape or not np.array_equal(got, exp_pairs):
            fail("bins", exp_pairs.tolist(), got.tolist())
            return
        if int(bobj.bin_count) != rec["count"]:
            fail("bin_count", rec["count"], int(bobj.bin_count))
        if float(bobj.first_edge) != self.pe.x(rec["first"]) or float(bobj.last_edge) != self.pe.x(rec["last"]):
            fail("first_last", [self.pe.x(rec["first"]), self.pe.x(rec["last"])], [float(bobj.first_edge), float(bobj.last_edge)])
        if bool(bobj.is_consecutive()) != rec["consecutive"]:
            fail("is_consecutive", rec["consecutive"], bool(bobj.is_consecutive()))
        try:
            reg = bool(bobj.is_regular())
        except EXC as ex:
            reg = f"{type(ex).__name__}: {ex}"
        if reg != rec["regular"]:
            fail("is_regular", rec["regular"], reg)
        if rec["consecutive"]:
            nb = np.asarray(bobj.numpy_bins, dtype=float)
            want = np.array([self.pe.x(v) for v in rec["masked"]])
            if nb.shape != want.shape or not np.array_equal(nb, want):
                fail("numpy_bins", want.tolist(), nb.tolist())
        else:
            try:
                nb = bobj.numpy_bins
                fail("numpy_bins", "refused for non-consecutive bins", np.asarray(nb).tolist())
            except EXC:
                pass
        edges, mask = bobj.numpy_bins_with_mask
        edges = np.asarray(edges, dtype=float)
        want = [self.pe.x(v) for v in rec["masked"]]
        if not bobj.includes_right_edge:
            want = want + [math.inf]
        if edges.tolist() != want or [int(m) for m in np.asarray(mask).tolist()] != list(rec["mask"]):
            fail("masked", {"edges": want, "mask": list(rec["mask"])}, {"edges": edges.tolist(), "mask": np.asarray(mask).tolist()})

    def compare(self, real, obs, post, action, args, pre, view) -> Optional[Mismatch]:
        bad, det = [], {}
        if action in REFUSALS:
            if obs["exc"] is None:
                return Mismatch(["refused"], {"expected": "an exception", "observed": "accepted: " + repr(obs["ret"])})
            return None
        if obs["exc"] is not None:
            return Mismatch(["accepted"], {"raised": obs["exc"]})
        r = obs["ret"]
        if action == "Copy":
            if not (r["eq"] and r["req"]) or r["same_object"]:
                bad.append("copy"); det["copy"] = r
        if action == "EqCheck":
            want = bool(args[1]) and r["same_class"]
            if r["eq"] != want:
                bad.append("eq"); det["eq"] = {"expected": want, "observed": r["eq"]}
        if action == "AsFixedWidth":
            if r["ok"] != bool(args[0]):
                bad.append("as_fixed_width"); det["as_fixed_width"] = {"expected_possible": bool(args[0]), "observed": r}
        if action == "NumpyRule":
            lo, hi, n, edges = args
            a, b = self.pe.affine
            want = [a * Fraction(e[0], e[1]) + b for e in edges]
            for key in ("range", "data"):
                got = r[key]
                ok = len(got) == len(want) and all(ulps(g, float(w)) <= 4 for g, w in zip(got, want))
                ok = ok and got[0] == float(want[0]) and got[-1] == float(want[-1])
                ok = ok and got == r["numpy_" + key]          # numpy.histogram's edges are the reference
                if not ok:
                    bad.append("numpy_rule"); det["numpy_rule." + key] = {"expected": [str(w) for w in want], "observed": got, "numpy": r["numpy_" + key]}
        if action == "PrettyRule":
            mn, mx, count, ws = args
            a, b = self.pe.affine
            allowed = [float(a * Fraction(w, 20)) for w in ws]
            w = r["width"]
            if not any(ulps(w, x) <= 2 for x in allowed):
                bad.append("pretty_width"); det["pretty_width"] = {"allowed": allowed, "observed": w}
            else:
                e = r["edges"]
                k0 = round(e[0] / w)
                aligned = all(ulps(e[i], (k0 + i) * w) <= 2 for i in range(len(e)))
                covers = r["under"] == 0 and r["over"] == 0 and r["total"] == r["n"]
                tight = e[0] <= self.pe.x(mn) < e[1] and e[-2] <= self.pe.x(mx) <= e[-1]
                if not (aligned and covers and tight):
                    bad.append("pretty_bins"); det["pretty_bins"] = {"aligned": aligned, "covers": covers, "tight": tight, "edges": e}
        if action == "QuantileRule":
            x, n, edges = args
            a, b = self.pe.affine
            want = [float(a * Fraction(e[0], e[1]) + b) for e in edges]
            got = r["bins"]
            flat = [got[0][0]] + [p[1] for p in got] if got else []
            cons = all(got[i][1] == got[i + 1][0] for i in range(len(got) - 1))
            ok = cons and len(flat) == len(want) and all(ulps(g, w) <= 4 for g, w in zip(flat, want)) and r["total"] == r["n"]
            if not ok:
                bad.append("quantile_rule"); det["quantile_rule"] = {"expected": want, "observed": got, "total": r["total"]}
        if action == "ExpRule":
            a_, c_, n, logs = args
            want = [10.0 ** l for l in logs]
            got = r["edges"]
            ok = len(got) == len(want) and all(ulps(g, w) <= 8 for g, w in zip(got, want))
            ok = ok and all(got[i] < got[i + 1] for i in range(len(got) - 1))
            ok = ok and all(abs(got[i] * got[i] / (got[i - 1] * got[i + 1]) - 1) < 1e-12 for i in range(1, len(got) - 1))
            if not ok:
                bad.append("exp_rule"); det["exp_rule"] = {"expected": want, "observed": got}
        if action == "CountRule":
            n, st, sq, ri, df = args
            want = {"sturges": st, "sqrt": sq, "rice": ri, "default": df}
            if r != want:
                bad.append("count_rule"); det["count_rule"] = {"expected": want, "observed": r}
        rec = post["b"]
        if "null" not in rec:
            if "b" not in real:
                bad.append("live")
            else:
                want_cls = {"static": "StaticBinning", "numpy": "NumpyBinning", "array": "StaticBinning", "fixed": "FixedWidthBinning"}[rec["kind"]]
                if type(real["b"]).__name__ != want_cls:
                    bad.append("class"); det["class"] = {"expected": want_cls, "observed": type(real["b"]).__name__}
                try:
                    self._cmp_binning(real["b"], rec, bad, det)
                except EXC as ex:
                    bad.append("snapshot"); det["snapshot"] = f"{type(ex).__name__}: {ex}"
        if bad:
            return Mismatch(sorted(set(bad)), det)
        return None

    def build(self, state):
        rec = state["b"]
        if "null" in rec:
            return {}
        try:
            b = self.B.StaticBinning(self._pairs(rec["bins"]))
            if rec["kind"] == "numpy":
                b = self.B.NumpyBinning(self._edges(rec["bins"]))
            elif rec["kind"] == "fixed":
                L = rec["bins"]
                w = self.pe.x(L[0][1]) - self.pe.x(L[0][0])
                b = self.B.FixedWidthBinning(bin_width=w, bin_count=len(L), min=self.pe.x(L[0][0]))
            return {"b": b}
        except EXC:
            return None

    def tag(self, action, args, pre, real=None):
        def shape(bins):
            widths = {r - l for (l, r) in bins}
            sub = ""
            if not consecutive(bins):
                e = self._pairs(bins)
                if np.allclose(e[1:, 0], e[:-1, 1], 1.0e-5, 1.0e-8):
                    sub = "~subtol"       # the gaps are below numpy.allclose's default tolerance under this embedding
            return f"{len(bins)}{'c' if consecutive(bins) else 'g'}{'r' if len(widths) == 1 else 'i'}{sub}"
        if action in ("Make", "MakeRefused"):
            return f"{action}/{args[1]}/{shape(args[0])}"
        rec = pre["b"]
        cur = shape(rec["bins"]) + "/" + rec["kind"] if "null" not in rec else "-"
        if action == "Slice":
            return f"Slice/{cur}/{args[0]}:{args[1]}"
        if action == "EqCheck":
            return f"EqCheck/{cur}/{shape(args[0])}/{args[1]}"
        if action == "AsFixedWidth":
            return f"AsFixedWidth/{cur}/{args[0]}"
        if action in ("Copy", "AsStatic"):
            return f"{action}/{cur}"
        if action == "CountRule":
            return f"CountRule/{args[0]}"
        return f"{action}/" + "/".join(str(a) for a in args[:3])

    def describe(self, action, args, pre):
        d = {"action": action, "args": repr(args)[:400], "embedding": self.pe.name, "spelling": self.spelling}
        rec = pre.get("b")
        if rec is not None and "null" not in rec:
            d["pre"] = {"bins": self.pe.edges(rec["bins"]), "kind": rec["kind"]}
        return d
