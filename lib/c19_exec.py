"""Executes behaviours of spec/PhystConfig.tla in the real runtime (threads or asyncio tasks), one public step at a time.

Run as a subprocess (the process default comes from PHYST_FREE_ARITHMETICS at import time):
    python c19_exec.py <in.json> <out.json>
in:  {"kind": "thread"|"task", "paths": [[{"action":..,"args":[..],"values":{exec: bool}}, ...], ...]}
out: {"results": [null | {"path": i, "step": j, "what": "...", "expected": .., "observed": ..}, ...], "steps": n}
"""
import asyncio
import json
import queue
import sys
import threading
import warnings

import numpy as np

warnings.simplefilter("ignore")
from physt import h1  # noqa: E402
from physt.config import config  # noqa: E402

TIMEOUT = 20


class Kill(BaseException):
    pass


class Unwind(Exception):
    def __init__(self, k):
        super().__init__(k)
        self.k = k


class UnwindBase(BaseException):
    """Stands for KeyboardInterrupt / SystemExit / CancelledError: leaves the with-blocks without being an Exception."""

    def __init__(self, k):
        super().__init__(k)
        self.k = k


def arith(what):
    h = h1(np.array([0.5, 1.5, 1.5]), np.array([0.0, 1.0, 2.0]))
    try:
        if what == "array":
            h + np.ones(2)
        elif what == "rarray":
            np.ones(2) + h
        elif what == "rzeros":
            np.zeros(2) + h
        elif what == "iadd_array":
            h += np.ones(2)
        elif what == "mul_array":
            h * np.full(2, 2.0)
        elif what == "rmul_array":
            np.full(2, 2.0) * h
        elif what == "sub_array":
            h - np.ones(2)
        elif what == "div_array":
            h / np.full(2, 2.0)
        elif what == "rlist":
            [1, 1] + h
        elif what == "negative":
            h * (-1)
        elif what in ("add_negative", "iadd_negative", "sum_negative"):
            with config.enable_free_arithmetics():       # a nested block of this execution's own: left again before the addition
                neg = (h + h) * (-1)
            if what == "add_negative":
                h + neg
            elif what == "iadd_negative":
                h += neg
            else:
                sum([h, neg])
        elif what == "sub_below_zero":
            with warnings.catch_warnings():
                warnings.simplefilter("ignore")
                h - (h + h)
        else:
            raise RuntimeError("unknown arithmetic " + what)
        return True
    except (TypeError, ValueError):
        return False


def handle_simple(cmd, spawn):
    op = cmd[0]
    if op == "set":
        config.free_arithmetics = cmd[1]
        return ("ok",)
    if op == "observe":
        return ("value", bool(config.free_arithmetics))
    if op == "arith":
        return ("accepted", arith(cmd[1]))
    if op == "spawn":
        spawn(cmd[1])
        return ("ok",)
    raise RuntimeError(f"unknown command {cmd}")


class ThreadExec:
    def __init__(self, name, world):
        self.name, self.world = name, world
        self.q, self.r = queue.Queue(), queue.Queue()
        self.thread = threading.Thread(target=self.run, daemon=True)

    def start(self):
        self.thread.start()

    def send(self, cmd):
        self.q.put(cmd)
        return self.r.get(timeout=TIMEOUT)

    def run(self):
        try:
            self.level(0)
        except Kill:
            return
        except BaseException as ex:  # pragma: no cover
            self.r.put(("error", repr(ex)))
        self.r.put(("finished",))

    def _spawn(self, child):
        self.world[child].start()

    def level(self, depth):
        while True:
            cmd = self.q.get()
            op = cmd[0]
            if op == "enter":
                try:
                    with config.enable_free_arithmetics(cmd[1]):
                        self.r.put(("ok",))
                        self.level(depth + 1)
                    self.r.put(("ok",))
                except (Unwind, UnwindBase) as u:
                    if u.k > 1:
                        u.k -= 1
                        raise
                    self.r.put(("ok",))
            elif op == "exit":
                return
            elif op == "raise":
                raise (UnwindBase(cmd[1]) if len(cmd) > 2 and cmd[2] == "base" else Unwind(cmd[1]))
            elif op == "finish":
                return
            elif op == "kill":
                raise Kill()
            else:
                self.r.put(handle_simple(cmd, self._spawn))


class TaskExec:
    def __init__(self, name, world, loop):
        self.name, self.world, self.loop = name, world, loop
        self.q = None
        self.r = queue.Queue()

    def send(self, cmd):
        self.loop.call_soon_threadsafe(self.q.put_nowait, cmd)
        return self.r.get(timeout=TIMEOUT)

    async def run(self):
        try:
            await self.level(0)
        except BaseException as ex:  # pragma: no cover
            self.r.put(("error", repr(ex)))
        self.r.put(("finished",))

    def _spawn(self, child):
        c = self.world[child]
        c.q = asyncio.Queue()
        c.task = asyncio.get_running_loop().create_task(c.run())   # copies THIS task's context

    async def level(self, depth):
        while True:
            cmd = await self.q.get()
            op = cmd[0]
            if op == "enter":
                try:
                    with config.enable_free_arithmetics(cmd[1]):
                        self.r.put(("ok",))
                        await self.level(depth + 1)
                    self.r.put(("ok",))
                except (Unwind, UnwindBase) as u:
                    if u.k > 1:
                        u.k -= 1
                        raise
                    self.r.put(("ok",))
            elif op == "exit":
                return
            elif op == "raise":
                raise (UnwindBase(cmd[1]) if len(cmd) > 2 and cmd[2] == "base" else Unwind(cmd[1]))
            elif op == "finish":
                return
            else:
                self.r.put(handle_simple(cmd, self._spawn))


def run_path(kind, path, names, root):
    loop = None
    if kind == "thread":
        world = {}
        for n in names:
            world[n] = ThreadExec(n, world)
        world[root].start()
    else:
        loop = asyncio.new_event_loop()
        lt = threading.Thread(target=loop.run_forever, daemon=True)
        lt.start()
        world = {}
        for n in names:
            world[n] = TaskExec(n, world, loop)

        async def boot():
            r = world[root]
            r.q = asyncio.Queue()
            r.task = asyncio.get_running_loop().create_task(r.run())
        asyncio.run_coroutine_threadsafe(boot(), loop).result(TIMEOUT)
    running = {root}
    failure = None
    try:
        for j, step in enumerate(path):
            a, args = step["action"], step["args"]
            if a == "Enter":
                world[args[0]].send(("enter", args[1]))
            elif a == "Exit":
                world[args[0]].send(("exit",))
            elif a == "Raise":
                world[args[0]].send(("raise", args[1], args[2] if len(args) > 2 else "exc"))
            elif a == "SetDirect":
                world[args[0]].send(("set", args[1]))
            elif a == "Spawn":
                world[args[0]].send(("spawn", args[1]))
                running.add(args[1])
            elif a == "Finish":
                rep = world[args[0]].send(("finish",))
                running.discard(args[0])
            elif a == "Arith":
                rep = world[args[0]].send(("arith", args[1]))
                if rep[1] != args[2]:
                    failure = {"step": j, "what": f"Arith({args[0]},{args[1]}) accepted", "expected": args[2], "observed": rep[1]}
                    break
            for e in sorted(running):
                rep = world[e].send(("observe",))
                want = step["values"].get(e)
                if want is not None and rep[1] != want:
                    failure = {"step": j, "what": f"config.free_arithmetics observed by {e} after {a}{tuple(args)}",
                               "expected": want, "observed": rep[1]}
                    break
            if failure:
                break
    except queue.Empty:
        failure = {"step": -1, "what": "harness timeout", "expected": None, "observed": None}
    finally:
        # let the threads / the loop go away
        if loop is not None:
            loop.call_soon_threadsafe(loop.stop)
        else:
            for e in running:
                world[e].q.put(("kill",))
    return failure


def main():
    spec = json.load(open(sys.argv[1]))
    results = []
    steps = 0
    for i, path in enumerate(spec["paths"]):
        f = run_path(spec["kind"], path, spec["names"], spec["root"])
        steps += len(path)
        if f is not None:
            f["path"] = i
            results.append(f)
    json.dump({"results": results, "steps": steps, "default_seen": bool(config.free_arithmetics)}, open(sys.argv[2], "w"))


if __name__ == "__main__":
    main()
