"""Adapter binding spec/PhystPlot.tla to the matplotlib / plotly / ascii plotting backends (marks, not pixels)."""
from __future__ import annotations

import contextlib
import io
import json
from fractions import Fraction
from typing import Optional

import numpy as np

from .a_binnings import ulps
from .a_pool import EXC
from .embed import PosEmb
from .replay import Adapter, Mismatch


def q(r) -> float:
    return float(Fraction(r[0], r[1]))


class PlotAdapter(Adapter):
    name = "PhystPlot"

    def __init__(self, pe: PosEmb, vscale: float = 1.0, overrides: int = 0):
        # overrides: 0 - labels come from the metadata; 1 - title suppressed (""), x label replaced; 2 - title replaced, labels suppressed
        self.overrides = overrides
        self.pe, self.vscale = pe, vscale
        import matplotlib
        matplotlib.use("Agg")
        import matplotlib.pyplot as plt
        from physt.binnings import StaticBinning
        from physt.types import Histogram1D, Histogram2D
        from physt import plotting
        self.plt, self.SB, self.H1, self.H2, self.plotting = plt, StaticBinning, Histogram1D, Histogram2D, plotting

    def initial(self, state):
        return {}

    def _ovr(self, two_d):
        if self.overrides == 1:
            return {"title": "", "xlabel": "XL"}
        if self.overrides == 2:
            return {"title": "TT", "xlabel": "", **({"ylabel": ""} if two_d else {})}
        return {}

    def _labels(self, want_x, want_y, want_t):
        o = self._ovr(want_y is not None)
        return o.get("xlabel", want_x), o.get("ylabel", want_y), o.get("title", want_t)

    def _build(self, s):
        if "bins" in s:
            kw = {}
            if s["name"]:
                kw["name"] = f"name{s['name']}"
                kw["title"] = f"title{s['name']}"
            if s["axis"]:
                kw["axis_name"] = f"ax{s['axis']}"
            return self.H1(self.SB(np.array(self.pe.edges(s["bins"]))), np.array(s["freq"], dtype=float) * self.vscale,
                           np.array(s["err2"], dtype=float) * self.vscale ** 2, **kw)
        f = np.array([list(row) for row in s["freq"]], dtype=float) * self.vscale
        if (f < 0).any():
            from physt.config import config
            with config.enable_free_arithmetics():      # negative contents exist only as results of free arithmetics
                return self.H2([self.SB(np.array(self.pe.edges(s["xbins"]))), self.SB(np.array(self.pe.edges(s["ybins"])))], f,
                               axis_names=("xa", "ya"), title="t2")
        return self.H2([self.SB(np.array(self.pe.edges(s["xbins"]))), self.SB(np.array(self.pe.edges(s["ybins"])))], f,
                       axis_names=("xa", "ya"), title="t2")

    def _snapshot(self, h):
        return json.dumps(h.to_dict(), sort_keys=True, default=str)

    def apply(self, real, action, args, pre):
        obs = {"exc": None, "ret": None, "unsupported": False}
        o = real
        try:
            if action == "Pick":
                o["h"] = self._build(args[0])
                return o, obs
            h = o["h"]
            before = self._snapshot(h)
            if action == "Plot1D":
                backend, kind, density, cumulative, errors, marks, errs = args
                if errors and backend != "matplotlib" or (errors and kind in ("fill", "step")):
                    obs["unsupported"] = True
                    return o, obs
                if backend == "ascii" and (density or cumulative):
                    obs["unsupported"] = True
                    return o, obs
                kw = {}
                if density:
                    kw["density"] = True
                if cumulative:
                    kw["cumulative"] = True
                if errors:
                    kw["errors"] = True
                if backend == "ascii":
                    buf = io.StringIO()
                    with contextlib.redirect_stdout(buf):
                        h.plot(kind, backend="ascii", width=40)
                    obs["ret"] = {"lines": buf.getvalue().splitlines()}
                elif backend == "plotly":
                    fig = h.plot(kind, backend="plotly", **kw)
                    tr = fig.data[0]
                    obs["ret"] = {"type": type(tr).__name__, "x": list(map(float, tr.x)), "y": list(map(float, tr.y)),
                                  "width": list(map(float, tr.width)) if getattr(tr, "width", None) is not None else None,
                                  "mode": getattr(tr, "mode", None), "name": tr.name}
                else:
                    ax = h.plot(kind, backend="matplotlib", **kw, **self._ovr(False))
                    obs["ret"] = self._mpl_marks(ax, kind)
                    self.plt.close(ax.figure)
                    if kind in ("bar", "scatter") and self.overrides == 1 and not cumulative:
                        # the same marks coloured by value (linear and logarithmic colour scale): colour is decoration, the
                        # heights stay the histogram's and the histogram stays untouched
                        for norm in (None, "log"):
                            nkw = {} if norm is None else {"cmap_normalize": norm}
                            if norm == "log" and not (np.asarray(h.frequencies) > 0).any():
                                continue
                            ax2 = h.plot(kind, backend="matplotlib", cmap="Greys", **nkw, **kw)
                            m2 = self._mpl_marks(ax2, kind)
                            self.plt.close(ax2.figure)
                            key = "bars" if kind == "bar" else "xy"
                            if key in m2 and key in obs["ret"] and m2[key] != obs["ret"][key]:
                                obs["coloured_marks_differ"] = {"cmap_normalize": norm, "plain": obs["ret"][key], "coloured": m2[key]}
            elif action == "Plot2D":
                backend, kind, density, show_zero, cells = args
                if backend == "plotly":
                    if density or not show_zero:
                        obs["unsupported"] = True
                        return o, obs
                    fig = h.plot("map", backend="plotly")
                    tr = fig.data[0]
                    obs["ret"] = {"z": np.asarray(tr.z, dtype=float).tolist(), "x": None if tr.x is None else list(map(float, tr.x)),
                                  "y": None if tr.y is None else list(map(float, tr.y))}
                elif kind == "map":
                    ax = h.plot("map", backend="matplotlib", density=density, show_zero=show_zero, show_colorbar=False, **self._ovr(True))
                    obs["ret"] = {"rects": [(float(p.get_x()), float(p.get_y()), float(p.get_width()), float(p.get_height()),
                                             [float(c) for c in p.get_facecolor()]) for p in ax.patches],
                                  "xlabel": ax.get_xlabel(), "ylabel": ax.get_ylabel(), "title": ax.get_title()}
                    self.plt.close(ax.figure)
                else:
                    if not show_zero:
                        obs["unsupported"] = True
                        return o, obs
                    try:
                        if self.overrides == 1:
                            axl = h.plot("image", backend="matplotlib", density=density, show_colorbar=False, cmap_normalize="log")
                            self.plt.close(axl.figure)       # a logarithmic colour scale first: only purity is judged on it
                        ax = h.plot("image", backend="matplotlib", density=density, show_colorbar=False)
                    except ValueError as ex:
                        if "irregular" in str(ex):
                            obs["unsupported"] = True      # refusing irregular bins is not wrong
                            return o, obs
                        raise
                    im = ax.images[0]
                    s_ = pre["h"]
                    irregular = any(len({b[1] - b[0] for b in s_[k]}) > 1 for k in ("xbins", "ybins"))
                    obs["irregular_image_accepted"] = irregular
                    obs["ret"] = {"array": np.asarray(im.get_array(), dtype=float).tolist(), "extent": [float(v) for v in im.get_extent()],
                                  "xlabel": ax.get_xlabel(), "ylabel": ax.get_ylabel()}
                    self.plt.close(ax.figure)
            elif action == "PlotRefused":
                (why,) = args
                one_d = h.ndim == 1
                try:
                    if why == "dim":
                        r = h.plot("map" if one_d else "bar", backend="matplotlib")
                    elif why == "kind":
                        r = h.plot("no_such_kind", backend="matplotlib")
                    else:
                        r = h.plot("bar" if one_d else "map", backend="no_such_backend")
                    obs["ret"] = {"refused": False}
                    self.plt.close("all")
                except Exception as ex:
                    obs["ret"] = {"refused": True, "why": f"{type(ex).__name__}"}
            elif action == "TimeTicks":
                unit, lo, hi, ticks = args
                from physt.plotting.common import TimeTickHandler
                level = ("sec", unit) if unit < 60 else (("min", unit // 60) if unit < 3600 else (("hour", unit // 3600) if unit < 86400 else ("day", unit // 86400)))
                th = TimeTickHandler(level)
                t, labels = th(h, float(lo), float(hi))
                obs["ret"] = {"ticks": [float(v) for v in t], "labels": list(labels)}
            else:
                raise RuntimeError("unknown action " + action)
            obs["unchanged"] = self._snapshot(h) == before
        except EXC as ex:
            if isinstance(ex, RuntimeError) and str(ex).startswith("unknown action"):
                raise
            obs["exc"] = f"{type(ex).__name__}: {ex}"
            self.plt.close("all")
        return o, obs

    def _mpl_marks(self, ax, kind):
        from matplotlib.collections import LineCollection, PathCollection, PolyCollection
        out = {"xlabel": ax.get_xlabel(), "title": ax.get_title()}
        if kind == "bar":
            out["bars"] = [(float(p.get_x()), float(p.get_width()), float(p.get_height())) for p in ax.patches]
        if kind in ("line", "step"):
            out["xy"] = np.asarray(ax.lines[0].get_xydata(), dtype=float).tolist() if ax.lines else []
        if kind == "scatter":
            pcs = [c for c in ax.collections if isinstance(c, PathCollection)]
            out["xy"] = np.asarray(pcs[-1].get_offsets(), dtype=float).tolist() if pcs else []
        if kind == "fill":
            polys = [c for c in ax.collections if isinstance(c, PolyCollection)]
            out["poly"] = np.asarray(polys[0].get_paths()[0].vertices, dtype=float).tolist() if polys else []
        segs = []
        for c in ax.collections:
            if isinstance(c, LineCollection):
                for s in c.get_segments():
                    s = np.asarray(s, dtype=float)
                    if len(s) == 2 and s[0][0] == s[1][0]:
                        segs.append((float(s[0][0]), float(min(s[0][1], s[1][1])), float(max(s[0][1], s[1][1]))))
        out["errsegs"] = segs
        return out

    # ------------------------------------------------------------------ compare
    def _close(self, a, b, tol=4):
        return ulps(float(a), float(b)) <= tol or abs(float(a) - float(b)) < 1e-300

    def compare(self, real, obs, post, action, args, pre, view) -> Optional[Mismatch]:
        bad, det = [], {}
        if obs["exc"] is not None:
            return Mismatch(["accepted"], {"raised": obs["exc"]})
        if action == "Pick" or obs.get("unsupported"):
            return None

        def fail(f, exp, got):
            bad.append(f)
            det[f] = {"expected": exp, "observed": got}
        if obs.get("irregular_image_accepted"):
            fail("image_irregular", "refused: equal pixels cannot sit at the positions of unequal bins", "image drawn")
        if obs.get("unchanged") is False:
            fail("histogram_modified", "unchanged", "changed")
        r = obs["ret"]
        x = self.pe.x
        a = float(self.pe.affine[0])
        s = pre["h"]
        if action == "Plot1D":
            backend, kind, density, cumulative, errors, marks, errs = args
            # value scale: frequencies scale with vscale, densities with vscale / a, normalised cumulative not at all
            if density and cumulative:
                hs = 1.0
            elif density:
                hs = self.vscale / a
            else:
                hs = self.vscale
            if kind == "bar":
                want = [(x(m[0]), a * m[1], q(m[2]) * hs) for m in marks]
            elif kind == "step":
                want = [q(m) * hs for m in marks]
            else:
                want = [((x(0) * 0 + (self.pe.affine[0] * m[0] / 2 + self.pe.affine[1])), q(m[1]) * hs) for m in marks]
                want = [(float(c), v) for c, v in want]
            if backend == "ascii":
                tot = sum(s["freq"])
                exp = [int(round(f / tot * 40)) for f in s["freq"]] if tot else None
                got = [ln.count("#") for ln in r["lines"]]
                if exp is not None and got != exp:
                    fail("ascii_bars", exp, r["lines"])
            elif backend == "plotly":
                if kind == "bar":
                    got = [(r["x"][i] - r["width"][i] / 2, r["width"][i], r["y"][i]) for i in range(len(r["x"]))] if r["width"] else []
                    ok = r["type"] == "Bar" and len(got) == len(want) and all(self._close(g[0], w[0], 8) and self._close(g[1], w[1]) and self._close(g[2], w[2]) for g, w in zip(got, want))
                    if not ok:
                        fail("bars", want, got)
                else:
                    got = list(zip(r["x"], r["y"]))
                    ok = len(got) == len(want) and all(self._close(g[0], w[0]) and self._close(g[1], w[1]) for g, w in zip(got, want))
                    ok = ok and r["mode"] == ("markers" if kind == "scatter" else "lines")
                    if not ok:
                        fail("points", want, got)
            else:
                if kind == "bar":
                    got = r["bars"]
                    ok = len(got) == len(want) and all(self._close(g[0], w[0]) and self._close(g[1], w[1]) and self._close(g[2], w[2]) for g, w in zip(got, want))
                    if not ok:
                        fail("bars", want, got)
                elif kind == "step":
                    edges = [x(s["bins"][0][0])] + [x(b[1]) for b in s["bins"]]
                    got = r["xy"]
                    ok = len(got) == len(edges) and all(self._close(g[0], e) for g, e in zip(got, edges)) and \
                        all(self._close(got[i + 1][1], want[i]) for i in range(len(want))) and (not got or self._close(got[0][1], want[0]))
                    if not ok:
                        fail("steps", {"edges": edges, "heights": want}, got)
                elif kind == "fill":
                    verts = r["poly"]
                    ok = all(any(self._close(v[0], w[0]) and self._close(v[1], w[1]) for v in verts) for w in want)
                    ok = ok and all(any(self._close(v[0], w[0]) and v[1] == 0 for v in verts) for w in want)
                    if not ok:
                        fail("fill", want, verts)
                else:
                    got = r["xy"]
                    ok = len(got) == len(want) and all(self._close(g[0], w[0]) and self._close(g[1], w[1]) for g, w in zip(got, want))
                    if not ok:
                        fail("points", want, got)
                if errors:
                    # error bars span +- sqrt(err2) (divided by the bin size for densities) around the height
                    es = self.vscale / a if density else self.vscale
                    heights = [w[2] if kind == "bar" else w[1] for w in want]
                    centers = [w[0] + w[1] / 2 if kind == "bar" else w[0] for w in want]
                    exp = [(centers[i], heights[i] - (q(errs[i]) ** 0.5) * es, heights[i] + (q(errs[i]) ** 0.5) * es) for i in range(len(errs))]
                    segs = r["errsegs"]
                    ok = all(any(abs(sg[0] - e[0]) <= 1e-9 * max(1, abs(e[0])) and abs(sg[1] - e[1]) <= 1e-9 * max(1, abs(e[1])) and abs(sg[2] - e[2]) <= 1e-9 * max(1, abs(e[2])) for sg in segs)
                             for e in exp if e[2] > e[1])
                    if not ok:
                        fail("error_bars", exp, segs)
                if obs.get("coloured_marks_differ"):
                    fail("coloured_marks", "the marks of the uncoloured plot", obs["coloured_marks_differ"])
                want_x = f"ax{s['axis']}" if s["axis"] else "axis0"
                want_t = f"title{s['name']}" if s["name"] else ""
                if backend == "matplotlib":
                    want_x, _y, want_t = self._labels(want_x, None, want_t)      # labels given in the call win, also empty ones
                if r["xlabel"] != want_x or r["title"] != want_t:
                    fail("labels", [want_x, want_t], [r["xlabel"], r["title"]])
        elif action == "Plot2D":
            backend, kind, density, show_zero, cells = args
            vs = self.vscale / (a * a) if density else self.vscale
            want = [(x(c[0]), x(c[1]), a * c[2], a * c[3], q(c[4]) * vs) for c in cells]
            if backend == "plotly":
                z = np.array(r["z"], dtype=float)
                f = np.array([list(row) for row in s["freq"]], dtype=float) * self.vscale
                # one cell per bin AT THE BIN'S POSITION: x/y coordinates of the bins are required, z[j][i] = freq[i][j]
                if r["x"] is None or r["y"] is None or z.shape != f.T.shape or not np.allclose(z, f.T):
                    fail("plotly_map_positions", {"z": f.T.tolist(), "x": "bin positions", "y": "bin positions"}, r)
            elif kind == "map":
                got = r["rects"]
                ok = len(got) == len(want)
                if ok:
                    for w in want:
                        if not any(self._close(g[0], w[0]) and self._close(g[1], w[1]) and self._close(g[2], w[2]) and self._close(g[3], w[3]) for g in got):
                            ok = False
                    # colour monotone in the value (Greys: larger value, not lighter)
                    lum = {}
                    for w in want:
                        g = next(g for g in got if self._close(g[0], w[0]) and self._close(g[1], w[1]))
                        lum[(w[0], w[1])] = (w[4], sum(g[4][:3]))
                    vals = sorted(lum.values())
                    for i in range(len(vals) - 1):
                        if vals[i][0] < vals[i + 1][0] and vals[i][1] < vals[i + 1][1] - 1e-12:
                            ok = False
                if not ok:
                    fail("cells", want, got)
                if (r["xlabel"], r["ylabel"], r["title"]) != self._labels("xa", "ya", "t2"):
                    fail("labels", list(self._labels("xa", "ya", "t2")), [r["xlabel"], r["ylabel"], r["title"]])
            else:
                arr = np.array(r["array"], dtype=float)
                nx, ny = len(s["xbins"]), len(s["ybins"])
                f = np.zeros((nx, ny))
                for i in range(nx):
                    for j in range(ny):
                        f[i, j] = s["freq"][i][j] * vs / ((s["xbins"][i][1] - s["xbins"][i][0]) * (s["ybins"][j][1] - s["ybins"][j][0]) if density else 1)
                exp = f.T[::-1, :]
                ext = [x(s["xbins"][0][0]), x(s["xbins"][-1][1]), x(s["ybins"][0][0]), x(s["ybins"][-1][1])]
                if arr.shape != exp.shape or not np.allclose(arr, exp, rtol=1e-14) or r["extent"] != ext:
                    fail("image", {"array": exp.tolist(), "extent": ext}, r)
        elif action == "PlotRefused":
            if not r["refused"]:
                fail("refused", "an exception", "plot accepted")
        elif action == "TimeTicks":
            unit, lo, hi, ticks = args
            if r["ticks"] != [float(t) for t in ticks] or len(r["labels"]) != len(ticks):
                fail("ticks", [float(t) for t in ticks], r)
        if bad:
            return Mismatch(sorted(set(bad)), det)
        return None

    def tag(self, action, args, pre, real=None):
        if action == "Pick":
            return "Pick/" + ("1d" if "bins" in args[0] else "2d")
        if action == "Plot1D":
            b, k, d, c, e = args[:5]
            return f"Plot1D/{b}/{k}/{'D' if d else '-'}{'C' if c else '-'}{'E' if e else '-'}/n{len(pre['h']['bins'])}"
        if action == "Plot2D":
            b, k, d, z = args[:4]
            return f"Plot2D/{b}/{k}/{'D' if d else '-'}{'Z' if z else '-'}"
        if action == "PlotRefused":
            return f"PlotRefused/{args[0]}/{'1d' if 'bins' in pre['h'] else '2d'}"
        return f"TimeTicks/{args[0]}"

    def describe(self, action, args, pre):
        return {"action": action, "args": repr(args)[:400], "embedding": self.pe.name, "vscale": self.vscale}
