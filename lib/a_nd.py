"""Adapter binding spec/HistND.tla to HistogramND / Histogram2D / physt.h, h2, h3."""
from __future__ import annotations

from fractions import Fraction
from typing import Optional

import numpy as np

from .a_hist1d import consecutive, pos_class
from .a_pool import EXC
from .embed import NAN, InputGuard, PosEmb, WEmb, feq, isnan
from .replay import Adapter, Mismatch

NONE_RET = (-7,)
NONE_IX = -99
REFUSALS = {"ProjectRefused", "MergeRefused"}


class NDAdapter(Adapter):
    name = "HistND"

    def __init__(self, pe: PosEmb, we: WEmb, spelling: int = 0):
        self.pe, self.we, self.spelling = pe, we, spelling
        import physt
        from physt.binnings import StaticBinning, NumpyBinning
        from physt.types import Histogram1D, Histogram2D, HistogramND
        self.physt = physt
        self._we = we
        self.StaticBinning, self.NumpyBinning = StaticBinning, NumpyBinning
        self.H1, self.H2, self.HN = Histogram1D, Histogram2D, HistogramND

    def initial(self, state):
        return {}

    # -------------------------------------------------------------- gamma
    def _binning(self, L, ri):
        pairs = np.array(self.pe.edges(L))
        if consecutive(L) and self.spelling % 2 == 1:
            return self.NumpyBinning(np.array([pairs[0][0]] + [p[1] for p in pairs]), includes_right_edge=ri)
        return self.StaticBinning(pairs, includes_right_edge=ri)

    def _bins_arg(self, LL, ri):
        # plain edge arrays mean right-inclusive static binnings: usable only when every axis is inclusive
        if all(ri) and self.spelling % 3 == 2:
            out = []
            for L in LL:
                pairs = np.array(self.pe.edges(L))
                out.append(np.array([pairs[0][0]] + [p[1] for p in pairs]) if consecutive(L) else pairs)
            return out
        return [self._binning(L, r) for L, r in zip(LL, ri)]

    def _rows(self, batch, dim):
        return np.array([[self.pe.x(c) for c in e[0]] for e in batch], dtype=float).reshape(-1, dim)

    def _weights(self, batch, weighted):
        if not weighted and self.we.den == 1 and self.we.num == 1:
            return None
        return np.asarray(self.we.arr([e[1] for e in batch]))

    def _names(self, dim):
        return tuple(f"ax{i + 1}" for i in range(dim))

    def apply(self, real, action, args, pre):
        obs = {"exc": None, "ret": None}
        o = real
        self._guard = guard = InputGuard()
        try:
            if action == "NewEmpty":
                LL, ri, keep = args
                dim = len(LL)
                cls = self.H2 if dim == 2 else self.HN
                o["h"] = cls([self._binning(L, r) for L, r in zip(LL, ri)], keep_missed=keep, axis_names=self._names(dim))
            elif action == "FromArrays":
                LL, ri = args
                dim = len(LL)
                shape = tuple(len(L) for L in LL)
                f = np.zeros(shape, dtype=np.int64)
                for c in np.ndindex(*shape):
                    f[c] = 1 + sum(c[a] * 4 ** a for a in range(dim))
                e = 2 * f + 1
                cls = self.H2 if dim == 2 else self.HN
                wv = float(self.we.val(1))
                fa = f if wv == 1 else f * wv
                ea = e if wv == 1 else e * wv * wv
                if self.we.name.startswith("narrow"):
                    # narrow integer contents, scaled so that the largest cell just fits the type (errors are left to the
                    # default; the caller's view leaves them out); the scale travels with the objects
                    o["K"] = int(np.iinfo(self.we.kind).max // int(f.max()))
                    fa, ea = (f * o["K"]).astype(self.we.kind), None
                o["h"] = cls([self._binning(L, r) for L, r in zip(LL, ri)], fa, errors2=ea, axis_names=self._names(dim))
            elif action == "Construct":
                LL, ri, batch, weighted = args
                dim = len(LL)
                rows = guard.track(self._rows(batch, dim))
                w = guard.track(self._weights(batch, weighted))
                bins = self._bins_arg(LL, ri)
                sp = self.spelling % 3
                if dim == 2 and sp == 1:
                    o["h"] = self.physt.h2(rows[:, 0], rows[:, 1], bins, weights=w, axis_names=self._names(dim))
                elif dim == 3 and sp == 1:
                    o["h"] = self.physt.h3([rows[:, 0], rows[:, 1], rows[:, 2]], bins, weights=w, axis_names=self._names(dim))
                elif dim == 3 and sp == 2:
                    o["h"] = self.physt.h3(rows, bins, weights=w, axis_names=self._names(dim))
                else:
                    o["h"] = self.physt.h(rows if (sp != 2 or len(batch) == 0) else rows.tolist(), bins, weights=w, axis_names=self._names(dim),
                                          **({"dim": dim} if len(batch) == 0 else {}))
            elif action == "Fill":
                row, w, r = args
                x = [self.pe.x(c) for c in row]
                if w == 1 and self.we.den == 1 and self.we.num == 1 and self.we.kind == "pyint" and self.spelling % 4 == 3:
                    o["h"] << x                        # the operator alias of fill (it returns nothing)
                    obs["ret"] = o["h"].find_bin(x)
                elif w == 1 and self.we.den == 1 and self.we.num == 1 and self.we.kind == "pyint" and self.spelling % 2:
                    obs["ret"] = o["h"].fill(x)
                else:
                    obs["ret"] = o["h"].fill(guard.track(np.array(x)) if self.spelling % 2 else x, self.we.w(w))
            elif action == "FillN":
                batch, weighted = args
                dim = o["h"].ndim
                rows = guard.track(self._rows(batch, dim))
                w = guard.track(self._weights(batch, weighted))
                if self.spelling % 2 and len(batch):
                    obs["ret"] = o["h"].fill_n(rows.T, weights=w, columns=True)
                else:
                    obs["ret"] = o["h"].fill_n(rows, weights=w)
            elif action == "FindBin":
                row, r = args
                obs["ret"] = o["h"].find_bin([self.pe.x(c) for c in row])
            elif action in ("Project", "ProjectRefused"):
                (axes,) = args
                names = o["h"].axis_names
                sp = self.spelling % 3
                if sp == 1:
                    a = [names[i - 1] if 1 <= i <= len(names) else f"nope{i}" for i in axes]
                elif sp == 2:
                    # mixed: axes alternately by index and by name (so a duplicate may be spelled once each way)
                    a = [(i - 1) if (n % 2 == 0 or not 1 <= i <= len(names)) else names[i - 1] for n, i in enumerate(axes)]
                else:
                    a = [i - 1 for i in axes]
                r = o["h"].projection(*a)
                if action == "Project":
                    o["d"] = r
            elif action == "ProjectAgain":
                (axes,) = args
                names = o["d"].axis_names
                a = [names[i - 1] for i in axes] if self.spelling % 2 else [i - 1 for i in axes]
                o["d"] = o["d"].projection(*a)
            elif action == "Transpose":
                o["d"] = o["h"].T
            elif action == "TransposeAgain":
                o["d"] = o["d"].T
            elif action == "Accumulate":
                (ax,) = args
                o["d"] = o["h"].accumulate(ax - 1 if self.spelling % 2 == 0 else o["h"].axis_names[ax - 1])
            elif action in ("Merge", "MergeRefused"):
                amount, ax, inplace = args
                r = o["h"].merge_bins(amount, axis=None if ax == 0 else ax - 1, inplace=inplace)
                if action == "Merge":
                    if inplace:
                        o["h"] = r
                    else:
                        o["d"] = r
            elif action == "FromArraysM":
                LL, ri, m, keep = args
                dim = len(LL)
                shape = tuple(len(L) for L in LL)
                f = np.zeros(shape, dtype=np.int64)
                for c in np.ndindex(*shape):
                    f[c] = 1 + sum(c[a] * 4 ** a for a in range(dim))
                e = 2 * f + 1
                cls = self.H2 if dim == 2 else self.HN
                wv = float(self.we.val(1))
                o["h"] = cls([self._binning(L, r) for L, r in zip(LL, ri)], f if wv == 1 else f * wv, errors2=e if wv == 1 else e * wv * wv,
                             axis_names=self._names(dim), missed=m * wv, keep_missed=keep)
            elif action == "ScaleND":
                p_, q_, how, inplace = args
                h = o["h"]
                if how == "div":
                    c = q_ / p_ if q_ % p_ else q_ // p_
                    if inplace:
                        h /= c
                    else:
                        o["d"] = h / c
                else:
                    c = p_ / q_ if p_ % q_ else p_ // q_
                    if inplace:
                        h *= c
                    else:
                        o["d"] = (c * h) if how == "rmul" else (h * c)
            elif action == "NormalizeND":
                percent, inplace = args
                r = o["h"].normalize(inplace=inplace, percent=percent)
                if inplace:
                    o["h"] = r
                else:
                    o["d"] = r
            elif action == "PartialNorm":
                ax, inplace, table = args
                h = o["h"]
                if inplace:
                    c = h.copy()
                    r = c.partial_normalize(ax - 1, inplace=True)
                else:
                    r = h.partial_normalize(ax - 1 if self.spelling % 2 == 0 else h.axis_names[ax - 1])
                obs["ret"] = {"freq": np.asarray(r.frequencies, dtype=float), "err2": np.asarray(r.errors2, dtype=float),
                              "same_object": r is h, "dtype": str(r.dtype)}
            elif action == "MergeMinFreq":
                t, ax, inplace = args
                den = pre["h"].get("den", 1)
                r = o["h"].merge_bins(min_frequency=float(self.we.val(t)) / den, axis=ax - 1, inplace=inplace)
                if inplace:
                    o["h"] = r
                else:
                    o["d"] = r
            elif action == "GetItem":
                (ix,) = args
                idx = []
                for t in ix:
                    if t[0] == "i":
                        idx.append(int(t[1]))
                    else:
                        idx.append(slice(None if t[1] == NONE_IX else t[1], None if t[2] == NONE_IX else t[2]))
                key = tuple(idx) if (len(idx) > 1 or self.spelling % 2) else idx[0]
                o["d"] = o["h"][key]
            elif action == "GetCell":
                ix = args[0]
                obs["ret"] = o["h"][tuple(int(i) for i in ix)]
            elif action == "DropD":
                del o["d"]
            else:
                raise RuntimeError("unknown action " + action)
        except EXC as ex:
            if isinstance(ex, RuntimeError) and str(ex).startswith("unknown action"):
                raise
            obs["exc"] = f"{type(ex).__name__}: {ex}"
        obs["inputs_changed"] = guard.changed()
        return o, obs

    # -------------------------------------------------------------- compare
    def _cmp_obj(self, x, rec, view, bad, det, key, exact_missed=True):
        def fail(f, exp, got):
            bad.append(f)
            det[f"{key}.{f}"] = {"expected": exp, "observed": got}
        LL = rec["bins"]
        dim = len(LL)
        want_cls = {1: self.H1, 2: self.H2}.get(dim, self.HN)
        if "class" in view and not isinstance(x, want_cls):
            fail("class", want_cls.__name__, type(x).__name__)
            return
        if x.ndim != dim:
            fail("ndim", dim, x.ndim)
            return
        bins = [x.bins] if dim == 1 else x.bins
        if "bins" in view:
            for a in range(dim):
                exp = np.array(self.pe.edges(LL[a]))
                got = np.asarray(bins[a])
                if got.shape != exp.shape or not np.array_equal(got, exp):
                    fail("bins", exp.tolist(), got.tolist())
                    break
                # the edge representation is cached separately by the binning: it must describe the same bins
                if consecutive(LL[a]) and len(LL[a]):
                    want = np.concatenate([exp[:, 0], exp[-1:, 1]])
                    e_ = np.asarray(x.numpy_bins if dim == 1 else x.binnings[a].numpy_bins)
                    if e_.shape != want.shape or not np.array_equal(e_, want):
                        fail("bins", want.tolist(), {"numpy_bins": e_.tolist()})
                        break
        shape = tuple(len(L) for L in LL)
        den = rec.get("den", 1)
        exact = den & (den - 1) == 0

        def same(got, want):
            if exact:
                return feq(got, want)
            w = float(want)
            return abs(float(got) - w) <= 64 * 2.3e-16 * max(abs(w), 1e-300)
        for fld, attr, val, dd in (("freq", "frequencies", self._we.val, den), ("err2", "errors2", self._we.val2, den * den)):
            if fld not in view:
                continue
            got = np.asarray(getattr(x, attr))
            ok = got.shape == shape
            if ok:
                for c, v in rec[fld].items():
                    if not same(got[tuple(i - 1 for i in c)], val(v) / dd):
                        ok = False
                        break
            if not ok:
                fail(fld, {str(c): str(val(v) / dd) for c, v in rec[fld].items()}, got.tolist())
        if "missed" in view and dim > 1:
            if not same(x.missed, self._we.val(rec["missed"]) / den):
                fail("missed", str(self._we.val(rec["missed"]) / den), repr(x.missed))
        if "total" in view:
            tot = sum(rec["freq"].values())
            if not same(x.total, self._we.val(tot) / den):
                fail("total", str(self._we.val(tot) / den), repr(x.total))
        if "names" in view:
            want = tuple(f"ax{n}" for n in rec["names"])
            got = tuple(x.axis_names)
            if got != want:
                fail("names", want, got)

    def compare(self, real, obs, post, action, args, pre, view) -> Optional[Mismatch]:
        bad, det = [], {}
        self._we = WEmb(self.we.name, real["K"], 1, self.we.kind) if isinstance(real, dict) and "K" in real else self.we
        if obs.get("inputs_changed"):
            bad.append("inputs"); det["inputs"] = obs["inputs_changed"][:2]      # the caller's arrays were overwritten
        if action in REFUSALS:
            if obs["exc"] is None and "refused" in view:
                bad.append("refused")
                det["refused"] = {"expected": "an exception", "observed": "accepted"}
        elif obs["exc"] is not None:
            return Mismatch(["accepted"], {"raised": obs["exc"]})
        if action in REFUSALS and "unchanged_on_refusal" not in view:
            return Mismatch(sorted(set(bad)), det) if bad else None
        if action in ("Fill", "FindBin") and "ret" in view:
            r = args[-1]
            exp = None if tuple(r) == NONE_RET else tuple(r)
            got = obs["ret"]
            try:
                gotn = None if got is None else tuple(int(v) for v in got)
            except Exception:
                gotn = ("?", repr(got))
            if gotn != exp:
                bad.append("ret")
                det["ret"] = {"expected": exp, "observed": repr(got)}
        if action == "GetCell":
            ix, lows, highs, num = args
            try:
                edges, content = obs["ret"]
                den = pre["h"].get("den", 1)
                okc = len(edges) == len(ix) and all(float(edges[a][0]) == self.pe.x(lows[a]) and float(edges[a][1]) == self.pe.x(highs[a]) for a in range(len(ix)))
                okc = okc and feq(content, self.we.val(num) / den)
            except Exception:
                okc = False
            if not okc:
                bad.append("cell")
                det["cell"] = {"expected": {"edges": [[self.pe.x(l), self.pe.x(r)] for l, r in zip(lows, highs)], "content": str(self.we.val(num))},
                               "observed": repr(obs["ret"])}
        if action == "PartialNorm" and obs["ret"] is not None:
            ax, inplace, table = args
            r = obs["ret"]
            okp = r["freq"].shape == tuple(len(L) for L in pre["h"]["bins"]) and r["dtype"].startswith("float")
            if okp:
                for c, (num, dv) in table.items():
                    ix = tuple(i - 1 for i in c)
                    want = float(self.we.val(num)) / float(self.we.val(dv)) if dv != 1 or True else 0
                    e_want = float(self.we.val2(pre["h"]["err2"][c])) / (float(self.we.val(dv)) ** 2)
                    if abs(r["freq"][ix] - want) > 8 * 2.3e-16 * max(want, 1e-300) or abs(r["err2"][ix] - e_want) > 8 * 2.3e-16 * max(e_want, 1e-300):
                        okp = False
                        break
                # every line with content sums to one
                sums = r["freq"].sum(axis=ax - 1)
                okp = okp and all(abs(sv - 1) < 1e-12 or sv == 0 for sv in np.ravel(sums))
            if not okp or (not inplace and r["same_object"]):
                bad.append("partial_normalize")
                det["partial_normalize"] = {"expected": {str(c): f"{v[0]}/{v[1]}" for c, v in table.items()}, "observed": r["freq"].tolist()}
        # a derived histogram never shares its arrays with the source (a later fill of one would change the other)
        whole = action == "GetItem" and all(part[0] == "s" and part[1] == -99 and part[2] == -99 for part in args[0])
        # (h[:] selects everything: the statement speaks of independence for "a real selection", physt returns h itself)
        if "h" in real and "d" in real and real["h"] is not None and real["d"] is not None and not whole and real["h"] is not real["d"] or \
                ("h" in real and "d" in real and real["h"] is real["d"] and real["h"] is not None and not whole and action in ("GetItem", "Project", "Transpose", "Accumulate", "Merge")):
            for attr in ("frequencies", "errors2"):
                a_, b_ = getattr(real["h"], attr, None), getattr(real["d"], attr, None)
                if isinstance(a_, np.ndarray) and isinstance(b_, np.ndarray) and np.shares_memory(a_, b_):
                    bad.append("aliasing"); det["aliasing"] = f"the derived histogram's {attr} share memory with the source's"
            if real["h"] is real["d"]:
                bad.append("aliasing"); det["aliasing"] = "the derived histogram is the source object"
        for key in ("h", "d"):
            rec = post[key]
            if "null" in rec:
                if key in real and "live" in view:
                    bad.append("live")
                continue
            if key not in real:
                bad.append("live")
                det["live"] = f"{key} missing"
                continue
            v = set(view)
            if key == "d" and action not in ("Transpose", "TransposeAgain"):
                # the missed counter of a projection / selection / merge is not specified; a transposition only relabels the
                # axes, so T keeps it (T.T == original)
                v.discard("missed")
            try:
                self._cmp_obj(real[key], rec, v, bad, det, key)
            except EXC as ex:
                bad.append("snapshot")
                det[f"{key}.snapshot"] = f"{type(ex).__name__}: {ex}"
        if bad:
            return Mismatch(sorted(set(bad)), det)
        return None

    def build(self, state):
        out = {}
        for key in ("h", "d"):
            rec = state[key]
            if "null" in rec:
                continue
            LL = rec["bins"]
            dim = len(LL)
            shape = tuple(len(L) for L in LL)
            f = np.zeros(shape)
            e = np.zeros(shape)
            den = rec.get("den", 1)
            for c, v in rec["freq"].items():
                f[tuple(i - 1 for i in c)] = float(self.we.val(v)) / den
            for c, v in rec["err2"].items():
                e[tuple(i - 1 for i in c)] = float(self.we.val2(v)) / den / den
            isint = self.we.den == 1 and not self.we.is_float and den == 1
            dt = np.int64 if isint else np.float64
            binnings = [self.StaticBinning(np.array(self.pe.edges(L)), includes_right_edge=r) for L, r in zip(LL, rec["rincl"])]
            names = tuple(f"ax{n}" for n in rec["names"])
            try:
                if dim == 1:
                    out[key] = self.H1(binnings[0], f.astype(dt), e.astype(dt), axis_name=names[0], dtype=dt)
                else:
                    cls = self.H2 if dim == 2 else self.HN
                    out[key] = cls(binnings, f.astype(dt), errors2=e.astype(dt), keep_missed=rec["keep"], axis_names=names,
                                   missed=float(self.we.val(rec["missed"])) / den, dtype=dt)
            except EXC:
                return None
        return out

    # -------------------------------------------------------------- tags
    def _row_class(self, LL, ri, row):
        out = []
        for a, c in enumerate(row):
            k = pos_class(LL[a], c)
            if k == "lastedge":
                k = "lastedge+" if ri[a] else "lastedge-"
            out.append(k)
        return ",".join(out)

    def _lk(self, LL):
        return "x".join(("g" if not consecutive(L) else "c") + str(len(L)) for L in LL)

    def tag(self, action, args, pre, real=None):
        kind = ""
        if real is not None and "h" in real:
            try:
                kind = "/" + real["h"].dtype.kind
            except Exception:
                pass
        if action == "FromArrays":
            return f"FromArrays/{self._lk(args[0])}"
        if action == "FromArraysM":
            return f"FromArraysM/{self._lk(args[0])}/m{args[2]}/{'keep' if args[3] else 'nokeep'}"
        if action == "NewEmpty":
            LL, ri, keep = args
            return f"NewEmpty/{self._lk(LL)}/{''.join('TF'[not r] for r in ri)}/{'keep' if keep else 'nokeep'}"
        if action == "Construct":
            LL, ri, batch, weighted = args
            cls = sorted({self._row_class(LL, ri, e[0]) for e in batch})
            return f"Construct/{self._lk(LL)}/{''.join('TF'[not r] for r in ri)}/{self._wk(weighted)}/{'|'.join(cls) or 'empty'}"
        h = pre["h"]
        if "null" in h:
            return action
        LL, ri = h["bins"], h["rincl"]
        base = f"{self._lk(LL)}/{''.join('TF'[not r] for r in ri)}/{'keep' if h['keep'] else 'nokeep'}{kind}"
        if action in ("Fill", "FindBin"):
            return f"{action}/{self._row_class(LL, ri, args[0])}/{base}" + (f"/w{args[1]}" if action == "Fill" else "")
        if action == "FillN":
            batch, weighted = args
            cls = sorted({self._row_class(LL, ri, e[0]) for e in batch})
            return f"FillN/{'|'.join(cls) or 'empty'}/{base}/{self._wk(weighted)}"
        if action in ("Project", "ProjectAgain", "ProjectRefused"):
            return f"{action}/{self._lk(LL)}/{'-'.join(str(a) for a in args[0])}"
        if action in ("Merge", "MergeRefused"):
            return f"{action}/{self._lk(LL)}/{args[0]}/ax{args[1]}/{'inplace' if args[2] else 'copy'}"
        if action == "ScaleND":
            return f"ScaleND/{self._lk(LL)}/{args[0]}_{args[1]}/{args[2]}/{'inplace' if args[3] else 'copy'}/{'keep' if h['keep'] else 'nokeep'}/m{min(h['missed'], 1)}"
        if action == "NormalizeND":
            return f"NormalizeND/{self._lk(LL)}/{'pct' if args[0] else 'one'}/{'inplace' if args[1] else 'copy'}/{'keep' if h['keep'] else 'nokeep'}/m{min(h['missed'], 1)}"
        if action == "PartialNorm":
            return f"PartialNorm/{self._lk(LL)}/ax{args[0]}/{'inplace' if args[1] else 'copy'}"
        if action == "MergeMinFreq":
            return f"MergeMinFreq/{self._lk(LL)}/{args[0]}/ax{args[1]}/{'inplace' if args[2] else 'copy'}"
        if action == "GetCell":
            return f"GetCell/{self._lk(LL)}/" + ",".join(str(i) for i in args[0])
        if action == "GetItem":
            return f"GetItem/{self._lk(LL)}/" + ";".join(":".join(str(v) for v in t) for t in args[0])
        if action == "Accumulate":
            return f"Accumulate/{self._lk(LL)}/{args[0]}"
        return f"{action}/{self._lk(LL)}"

    def _wk(self, weighted):
        if not weighted and self.we.den == 1 and self.we.num == 1:
            return "int-u"
        return "float-w" if self.we.is_float else "int-w"

    def describe(self, action, args, pre):
        d = {"action": action, "args": repr(args), "embedding": self.pe.name, "weights": self.we.name, "spelling": self.spelling}
        h = pre.get("h")
        if h is not None and "null" not in h:
            d["pre"] = {"bins": [self.pe.edges(L) for L in h["bins"]], "rincl": list(h["rincl"]),
                        "freq": {str(k): v for k, v in h["freq"].items()}, "missed": h["missed"], "keep": h["keep"]}
        if action in ("Fill", "FindBin"):
            d["row"] = [repr(self.pe.x(c)) for c in args[0]]
        return d
