"""Running TLC and reading back what it explored."""
from __future__ import annotations

import os
import re
import shutil
import subprocess
import tempfile
import time
from dataclasses import dataclass, field
from typing import Dict, List, Optional, Tuple

from .tlaparse import parse_state

VERIF = os.path.dirname(os.path.dirname(os.path.abspath(__file__)))
SPEC_DIR = os.path.join(VERIF, "spec")
JAR = "/opt/veriftools/tla/tla2tools.jar:/opt/veriftools/tla/CommunityModules-deps.jar"


class MachineryError(Exception):
    """The tooling (not the property) failed: exit 2."""


def scratch_dir(tag: str = "run") -> str:
    base = os.path.join(VERIF, ".scratch")
    os.makedirs(base, exist_ok=True)
    return tempfile.mkdtemp(prefix=f"{tag}-{os.getpid()}-", dir=base)


@dataclass
class TlcResult:
    ok: bool
    generated: int = 0
    distinct: int = 0
    depth: int = 0
    wall_s: float = 0.0
    stdout: str = ""
    error: str = ""
    violated: Optional[str] = None
    coverage: Dict[str, Tuple[int, int]] = field(default_factory=dict)
    dot: Optional[str] = None
    cmd: str = ""
    printed: List[str] = field(default_factory=list)


_COV = re.compile(r"^<(\w+) line (\d+), col (\d+) to line (\d+), col (\d+) of module (\w+)>: (\d+):(\d+)")


def run_tlc(
    module: str,
    cfg: Optional[str] = None,
    *,
    workers: int = 16,
    dump_dot: bool = False,
    coverage: bool = True,
    simulate: Optional[str] = None,
    depth: Optional[int] = None,
    seed: Optional[int] = None,
    env: Optional[dict] = None,
    timeout: int = 3600,
    scratch: Optional[str] = None,
    java_opts: Optional[List[str]] = None,
    extra: Optional[List[str]] = None,
) -> TlcResult:
    """Run TLC on spec/<module>.tla with spec/<cfg>.cfg. Returns parsed result.

    The state directory lives in a scratch directory which the caller removes
    (scratch given) or which is removed here (scratch None, unless dump_dot)."""
    own = scratch is None
    if scratch is None:
        scratch = scratch_dir(module)
    cfg = cfg or module
    os.makedirs(os.path.join(scratch, "jtmp"), exist_ok=True)
    # TLC unpacks helper files into java.io.tmpdir and leaves them behind: keep them in the scratch directory (removed below)
    cmd = ["java", "-XX:+UseParallelGC", "-Xmx12g", "-Djava.io.tmpdir=" + os.path.join(scratch, "jtmp")]
    cmd += java_opts or []
    cmd += ["-cp", JAR, "tlc2.TLC", "-workers", str(workers), "-metadir", os.path.join(scratch, "meta"),
            "-noGenerateSpecTE", "-config", os.path.join(SPEC_DIR, cfg + ".cfg")]
    dot = None
    if dump_dot:
        dot = os.path.join(scratch, "graph")
        cmd += ["-dump", "dot,actionlabels", dot]
        dot += ".dot"
    if coverage and not simulate:
        cmd += ["-coverage", "1"]
    if simulate:
        cmd += ["-simulate", simulate]
    if depth is not None:
        cmd += ["-depth", str(depth)]
    if seed is not None:
        cmd += ["-seed", str(seed)]
    cmd += extra or []
    cmd += [os.path.join(SPEC_DIR, module + ".tla")]
    e = dict(os.environ)
    e.update(env or {})
    t0 = time.time()
    try:
        p = subprocess.run(cmd, cwd=SPEC_DIR, env=e, capture_output=True, text=True, timeout=timeout)
    except subprocess.TimeoutExpired as ex:
        subprocess.run(["pkill", "-f", "tlc2[.]TLC.*" + re.escape(scratch)], check=False)
        raise MachineryError(f"TLC timeout after {timeout}s on {module}/{cfg}") from ex
    out = p.stdout + p.stderr
    res = TlcResult(ok=False, stdout=out, wall_s=time.time() - t0, dot=dot, cmd=" ".join(cmd))
    m = re.search(r"(\d+) states generated, (\d+) distinct states found", out)
    if m:
        res.generated, res.distinct = int(m.group(1)), int(m.group(2))
    m = re.search(r"The depth of the complete state graph search is (\d+)", out)
    if m:
        res.depth = int(m.group(1))
    for line in out.splitlines():
        m = _COV.match(line)
        if m:
            res.coverage[m.group(1)] = (int(m.group(7)), int(m.group(8)))
    m = re.search(r"Invariant (\S+) is violated", out) or re.search(r"Action property (\S+) is violated", out) \
        or re.search(r"Temporal properties were violated", out)
    if m:
        res.violated = m.group(1) if m.groups() else "temporal"
    if "Model checking completed. No error has been found." in out or (simulate and p.returncode == 0 and not res.violated):
        res.ok = True
    elif res.violated:
        res.error = "property violated in the model: " + res.violated
    else:
        tail = "\n".join(out.splitlines()[-40:])
        if own:
            shutil.rmtree(scratch, ignore_errors=True)
        raise MachineryError(f"TLC failed on {module}/{cfg} (rc={p.returncode}):\n{tail}")
    shutil.rmtree(os.path.join(scratch, "meta"), ignore_errors=True)
    shutil.rmtree(os.path.join(scratch, "jtmp"), ignore_errors=True)
    if own and not dump_dot:
        shutil.rmtree(scratch, ignore_errors=True)
    return res


Label = Tuple[str, tuple]


def parse_label(s: str) -> Label:
    """'Fill(1,2)' -> ('Fill', (1, 2)); parameters are TLA+ values."""
    from .tlaparse import parse_value
    s = s.strip()
    if "(" not in s:
        return s, ()
    name, rest = s.split("(", 1)
    rest = rest.rsplit(")", 1)[0]
    if not rest.strip():
        return name, ()
    return name, tuple(parse_value("<<" + rest + ">>"))


_NODE = re.compile(r'^(-?\d+) \[label="(.*?)"(?:,style = filled)?(?:,tooltip=".*")?\];?$')
_EDGE = re.compile(r'^(-?\d+) -> (-?\d+) \[label="(.*?)",color=')


def _unesc(s: str) -> str:
    return s.replace("\\n", "\n").replace('\\"', '"').replace("\\\\", "\\")


@dataclass
class Graph:
    nodes: Dict[int, dict]
    init: List[int]
    out: Dict[int, List[Tuple[Label, int]]]
    n_edges: int


def parse_dot(path: str) -> Graph:
    nodes: Dict[int, dict] = {}
    init: List[int] = []
    out: Dict[int, List[Tuple[Label, int]]] = {}
    n_edges = 0
    label_cache: Dict[str, Label] = {}
    with open(path, "r", encoding="utf-8") as f:
        for line in f:
            line = line.rstrip("\n")
            if " -> " in line[:45]:
                m = _EDGE.match(line)
                if m:
                    raw = m.group(3)
                    lab = label_cache.get(raw)
                    if lab is None:
                        lab = label_cache[raw] = parse_label(_unesc(raw))
                    out.setdefault(int(m.group(1)), []).append((lab, int(m.group(2))))
                    n_edges += 1
                    continue
            if line and (line[0].isdigit() or line[0] == "-"):
                i = line.find(" [label=\"")
                if i < 0:
                    continue
                nid = int(line[:i])
                if nid in nodes:
                    continue
                end = i + 9
                ln = len(line)
                while end < ln and line[end] != '"':
                    end += 2 if line[end] == "\\" else 1
                body = line[i + 9:end]
                nodes[nid] = parse_state(_unesc(body))
                if "style = filled" in line[end:end + 30]:
                    init.append(nid)
    return Graph(nodes, init, out, n_edges)


_SIM_ACTION = re.compile(r"^\\\* <(.*) line \d+, col \d+ to line \d+, col \d+ of module \w+>\s*$")


def parse_sim_traces(prefix_dir: str, prefix: str = "tr") -> Graph:
    """Behaviours written by `tlc -simulate file=<dir>/<prefix>,num=N`: one chain of states per file, with the action
    (and its parameters) that led to each state.  Returned as a forest: every behaviour starts at its own initial node."""
    nodes: Dict[int, dict] = {}
    init: List[int] = []
    out: Dict[int, List[Tuple[Label, int]]] = {}
    n_edges = 0
    nid = 0
    for fn in sorted(os.listdir(prefix_dir)):
        if not fn.startswith(prefix + "_"):
            continue
        with open(os.path.join(prefix_dir, fn), encoding="utf-8") as f:
            text = f.read()
        chunks = re.split(r"^STATE_\d+ ==\s*$", text, flags=re.M)
        # chunks[0] = header + first action comment; chunk i (i >= 1) = state text followed by the next action comment
        labels = []
        for ch in chunks:
            lab = None
            for line in ch.splitlines():
                m = _SIM_ACTION.match(line)
                if m:
                    lab = m.group(1)
            labels.append(lab)
        prev = None
        for i in range(1, len(chunks)):
            body = "\n".join(l for l in chunks[i].splitlines() if not l.startswith("\\*") and not l.startswith("====")).strip()
            if not body:
                continue
            nid += 1
            nodes[nid] = parse_state(body)
            if prev is None:
                init.append(nid)
            else:
                lab = labels[i - 1]
                out.setdefault(prev, []).append((parse_label(lab), nid))
                n_edges += 1
            prev = nid
    return Graph(nodes, init, out, n_edges)
