"""Adapter for spec/PhystContainers.tla (C17): the same data in every supported container."""
from __future__ import annotations

import numpy as np

from .a_hist1d import Hist1DAdapter, consecutive
from .a_pool import EXC


class ContainerAdapter(Hist1DAdapter):
    name = "PhystContainers"

    def apply(self, real, action, args, pre):
        if action != "ConstructFrom":
            return super().apply(real, action, args, pre)
        import pandas as pd
        import polars as pl
        obs = {"exc": None, "ret": None, "axis_name": None}
        L, keep, batch, weighted, container, chunks = args
        vals = np.array(self._values(batch), dtype=float)
        w = self._weights(batch, weighted)
        bins = self._bins_arg(L)
        kw = {"keep_missed": keep}
        try:
            if container == "list":
                real = self.physt.h1(list(vals), bins, weights=None if w is None else list(w), **kw)
            elif container == "tuple":
                real = self.physt.h1(tuple(vals), bins, weights=w, **kw)
            elif container == "iter":
                real = self.physt.h1(iter(list(vals)), bins, weights=w, **kw)
            elif container == "ndarray":
                real = self.physt.h1(vals, bins, weights=None if w is None else np.asarray(w), **kw)
            elif container == "ndarray2d":
                v2 = vals.reshape(1, -1) if len(vals) else vals
                w2 = None if w is None else (np.asarray(w).reshape(1, -1) if len(vals) else np.asarray(w))
                real = self.physt.h1(v2, bins, weights=w2, **kw)
            elif container in ("tuple2rows", "list2rows"):
                # multi-dimensional input given as nested sequences: exactly two rows
                rows = vals.reshape(2, -1)
                cont = tuple(tuple(float(v) for v in r) for r in rows) if container == "tuple2rows" else [list(map(float, r)) for r in rows]
                w2 = None if w is None else np.asarray(w).reshape(2, -1)
                real = self.physt.h1(cont, bins, weights=w2, **kw)
            elif container in ("ndarray2d.F", "ndarray2d.T"):
                # same entries, not C-contiguous in memory; without NaN also through the dropna=False path
                if container == "ndarray2d.F":
                    v2 = np.asfortranarray(vals.reshape(2, -1))
                    w2 = None if w is None else np.asarray(w).reshape(2, -1)
                else:
                    v2 = vals.reshape(-1, 2).T
                    w2 = None if w is None else np.ascontiguousarray(np.asarray(w).reshape(-1, 2).T)
                assert not v2.flags["C_CONTIGUOUS"]
                if not np.isnan(vals).any():
                    kw["dropna"] = False
                real = self.physt.h1(v2, bins, weights=w2, **kw)
            elif container == "pd.Series":
                s = pd.Series(vals, name="col")
                real = self.physt.h1(s, bins, weights=None if w is None else pd.Series(np.asarray(w)), **kw)
                obs["axis_name"] = ("col", real.axis_name)
            elif container == "pl.Series":
                s = pl.Series("col", vals)
                real = self.physt.h1(s, bins, weights=w, **kw)
                obs["axis_name"] = ("col", real.axis_name)
            elif container == "accessor":
                s = pd.Series(vals, name="col")
                real = s.physt.h1(bins, weights=w, **kw)
                obs["axis_name"] = ("col", real.axis_name)
            elif container == "df.accessor":
                df = pd.DataFrame({"col": vals, "wcol": np.ones(len(vals)) if w is None else np.asarray(w, dtype=float)})
                if w is None:
                    real = df.physt.h1("col", bins, **kw)
                else:
                    real = df.physt.h1("col", bins, weights="wcol", **kw)
                obs["axis_name"] = ("col", real.axis_name)
            elif container in ("dask", "dask.thread"):
                import dask.array as da
                from physt.compat import dask as pdask
                arr = da.from_array(vals, chunks=(tuple(int(c) for c in chunks),))
                if w is not None:
                    # weights are per chunk in dask: not supported by the facade -> feed chunk by chunk and sum
                    parts = []
                    start = 0
                    for c in chunks:
                        parts.append(self.physt.h1(vals[start:start + c], bins, weights=np.asarray(w)[start:start + c], **kw))
                        start += c
                    real = sum(parts)
                else:
                    real = pdask.h1(arr, bins, dask_method="thread" if container == "dask.thread" else None, **kw)
            else:
                raise RuntimeError("unknown container " + container)
        except EXC as ex:
            if isinstance(ex, RuntimeError) and str(ex).startswith("unknown container"):
                raise
            obs["exc"] = f"{type(ex).__name__}: {ex}"
        return real, obs

    def compare(self, real, obs, post, action, args, pre, view):
        if action != "ConstructFrom":
            return super().compare(real, obs, post, action, args, pre, view)
        mm = super().compare(real, obs, post, "Construct", args[:4], pre, view)
        if mm is None and obs.get("axis_name") and "axis_name" in view:
            want, got = obs["axis_name"]
            if want != got:
                from .replay import Mismatch
                return Mismatch(["axis_name"], {"expected": want, "observed": got})
        return mm

    def tag(self, action, args, pre, real=None):
        if action != "ConstructFrom":
            return super().tag(action, args, pre, real)
        L, keep, batch, weighted, container, chunks = args
        from .a_hist1d import pos_class
        cls = sorted({pos_class(L, e[0]) for e in batch})
        return f"ConstructFrom/{container}/{self._lkind(L)}/{self._wkind(weighted)}/{'+'.join(cls) or 'empty'}/chunks{len(chunks)}"

    def describe(self, action, args, pre):
        if action != "ConstructFrom":
            return super().describe(action, args, pre)
        return {"action": action, "container": args[4], "chunks": list(args[5]), "bins": self.pe.edges(args[0]),
                "values": [repr(v) for v in self._values(args[2])], "weighted": args[3], "weights": self.we.name}
