"""Adapter binding spec/HistPool.tla to a pool of real Histogram1D objects."""
from __future__ import annotations

import math
from fractions import Fraction
from typing import Optional

import numpy as np

from .a_hist1d import consecutive, pos_class, stats_expect
from .embed import NAN, NEGINF, POSINF, UNKNOWN, PosEmb, WTS, feq, isnan
from .replay import Adapter, Mismatch

NONE_IX = -99
ANYVAL = -77777
NP_DTYPE = {"i2": np.int16, "i4": np.int32, "i8": np.int64, "f2": np.float16, "f4": np.float32, "f8": np.float64,
            "f16": getattr(np, "float128", np.float64)}
CODE = {np.dtype(v).name: k for k, v in NP_DTYPE.items()}
EXC = (ValueError, TypeError, IndexError, KeyError, RuntimeError, AttributeError, ZeroDivisionError, OverflowError,
       NotImplementedError, AssertionError)
REFUSALS = {"NewRefused", "AddRefused", "IAddRefused", "ForeignRefused", "ISubRefused", "NegRefused", "DivZeroRefused", "SetDtypeRefused",
            "FillNRefused", "MergeRefused", "MergeFracRefused", "IndexRefused"}


def fmap(v):
    """A TLA+ function with domain 1..n is printed as a tuple: give both forms one shape."""
    if isinstance(v, tuple):
        return {i + 1: x for i, x in enumerate(v)}
    return v


def pow2(n: int) -> bool:
    return n > 0 and (n & (n - 1)) == 0


def check_promotion_table():
    """The spec's transcription of numpy's promotion (PhystRec.Promote) is checked against numpy itself."""
    ints, floats = ["i2", "i4", "i8"], ["f2", "f4", "f8", "f16"]
    rank = {"i2": 1, "i4": 2, "i8": 3, "f2": 1, "f4": 2, "f8": 3, "f16": 4}

    def promote(a, b):
        if a in ints and b in ints:
            return ints[max(rank[a], rank[b]) - 1]
        if a in floats and b in floats:
            return floats[max(rank[a], rank[b]) - 1]
        i, f = (a, b) if a in ints else (b, a)
        need = 2 if rank[i] == 1 else 3
        return floats[max(need, rank[f]) - 1]
    bad = []
    for a in NP_DTYPE:
        for b in NP_DTYPE:
            got = CODE[np.promote_types(NP_DTYPE[a], NP_DTYPE[b]).name]
            if got != promote(a, b):
                bad.append((a, b, got, promote(a, b)))
    return bad


class PoolAdapter(Adapter):
    name = "HistPool"
    STATS_EXACT = {"dyadic", "int", "neg"}

    # refusals that exist only while free arithmetics is off (with it on the same calls are accepted)
    MODE_DEPENDENT = {"NegRefused", "ISubRefused"}
    MODE_DEPENDENT_FOREIGN = {"add_array", "add_scalar", "iadd_array", "mul_array", "imul_array", "div_array", "sub_array"}

    def __init__(self, pe: PosEmb, spelling: int = 0, free_all: bool = False):
        # free_all: every call runs with free arithmetics enabled.  Whatever does not involve an array operand or a negative
        # content must behave exactly as with the switch off; the refusals that depend on the switch are left out of this run
        self.free_all = free_all
        self.pe, self.spelling = pe, spelling
        import physt
        from physt.types import Histogram1D
        self.physt, self.Histogram1D = physt, Histogram1D

    def initial(self, state):
        return {}

    # ------------------------------------------------------------------ calls
    def _scalar(self, c, negate=False):
        p, q, kind = c
        v = Fraction(p, q)
        if negate:
            v = -v
        if kind == "pyint":
            assert v.denominator == 1
            return int(v)
        if kind == "pyfloat":
            return float(v)
        return NP_DTYPE[kind](float(v))

    def _new(self, s):
        vals = np.array([self.pe.x(e[0]) for e in s["batch"]], dtype=float)
        kw = {}
        if s["weighted"]:
            if s["den"] == 1:
                kw["weights"] = np.array([e[1] for e in s["batch"]], dtype=np.int64)
            else:
                kw["weights"] = np.array([e[1] / s["den"] for e in s["batch"]], dtype=float)
        default = "f8" if (s["weighted"] and s["den"] != 1) else "i8"
        if s["dtype"] != default:
            kw["dtype"] = NP_DTYPE[s["dtype"]]
        L = s["L"]
        pairs = np.array(self.pe.edges(L))
        bins = pairs if (self.spelling % 2 or not consecutive(L)) else np.array([pairs[0][0]] + [p[1] for p in pairs])
        return self.physt.h1(vals, bins, keep_missed=s["keep"], name=f"n{s['name']}" if s["name"] else None, **kw)

    def _axis_kw(self):
        # the axis of a 1-D histogram left out, given by index or given by name: three routes through merge_bins
        sp = self.spelling % 3
        return {} if sp == 0 else ({"axis": 0} if sp == 1 else {"axis": "axis0"})

    def _free(self, on):
        from physt.config import config
        return config.enable_free_arithmetics(bool(on))       # explicit in both directions (the run may have it on around every call)

    def _mode_dependent(self, action, args):
        return action in self.MODE_DEPENDENT or (action == "ForeignRefused" and args[1] in self.MODE_DEPENDENT_FOREIGN)

    def apply(self, real, action, args, pre):
        if self.free_all:
            if self._mode_dependent(action, args):
                return real, {"exc": None, "ret": None, "skipped": True}
            with self._free(True):
                return self._apply(real, action, args, pre)
        return self._apply(real, action, args, pre)

    def _apply(self, real, action, args, pre):
        obs = {"exc": None, "ret": None}
        o = real
        try:
            if action == "New":
                k, s = args
                o[k] = self._new(s)
            elif action == "Copy":
                i, k = args
                o[k] = o[i].copy()
            elif action == "CopyEmpty":
                i, k = args
                o[k] = o[i].copy(include_frequencies=False)
            elif action == "Add":
                i, j, k = args
                sp = self.spelling % 3
                if sp == 0:
                    o[k] = o[i] + o[j]
                elif sp == 1:
                    o[k] = sum([o[i], o[j]])
                else:
                    o[k] = o[i].__add__(o[j])
            elif action == "IAdd":
                i, j = args
                x = o[i]
                x += o[j]
                o[i] = x
            elif action == "AddRefused":
                i, j = args
                obs["ret"] = o[i] + o[j]
            elif action == "IAddRefused":
                i, j = args
                x = o[i]
                x += o[j]
            elif action == "ForeignRefused":
                i, what = args
                h = o[i]
                arr = np.ones(h.shape)
                if what.endswith("_free"):
                    with self._free(True):
                        if what == "mul_hist_free":
                            obs["ret"] = h * h.copy()
                        elif what == "imul_hist_free":
                            h *= h.copy()
                        elif what == "div_hist_free":
                            obs["ret"] = h / h.copy()
                        elif what == "idiv_hist_free":
                            h /= h.copy()
                        else:
                            obs["ret"] = 1 / h
                elif what == "add_array":
                    obs["ret"] = h + arr
                elif what == "add_scalar":
                    obs["ret"] = h + 1
                elif what == "iadd_array":
                    h += arr
                elif what == "mul_array":
                    obs["ret"] = h * arr
                elif what == "imul_array":
                    h *= arr
                elif what == "mul_hist":
                    obs["ret"] = h * h.copy()
                elif what == "imul_hist":
                    h *= h.copy()
                elif what == "div_hist":
                    obs["ret"] = h / h.copy()
                elif what == "idiv_hist":
                    h /= h.copy()
                elif what == "div_array":
                    obs["ret"] = h / arr
                elif what == "rdiv_scalar":
                    obs["ret"] = 1 / h
                elif what == "sub_array":
                    obs["ret"] = h - arr
            elif action == "Sub":
                i, j, k, free = args
                with self._free(free):          # free arithmetics on: another branch of __isub__
                    o[k] = o[i] - o[j]
            elif action in ("ISub", "ISubRefused"):
                i, j = args[0], args[1]
                x = o[i]
                with self._free(action == "ISub" and args[2]):
                    x -= o[j]
                o[i] = x
            elif action == "Mul":
                i, c, k, refl = args
                o[k] = (self._scalar(c) * o[i]) if refl else (o[i] * self._scalar(c))
            elif action == "IMul":
                i, c = args
                x = o[i]
                x *= self._scalar(c)
                o[i] = x
            elif action == "Div":
                i, c, k = args
                o[k] = o[i] / self._scalar(c)
            elif action == "IDiv":
                i, c = args
                x = o[i]
                x /= self._scalar(c)
                o[i] = x
            elif action == "NegRefused":
                i, inplace = args
                if inplace:
                    x = o[i]
                    x *= -1
                else:
                    obs["ret"] = o[i] * (-1.0)
            elif action == "DivZeroRefused":
                (i,) = args
                x = o[i]
                x /= 0
            elif action == "Normalize":
                i, percent, inplace, k = args
                r = o[i].normalize(inplace=inplace, percent=percent)
                o[k] = r
            elif action == "Fill":
                i, p, w = args
                obs["ret"] = o[i].fill(self.pe.x(p)) if (w == 1 and self.spelling % 2) else o[i].fill(self.pe.x(p), int(w))
            elif action == "FillHalf":
                i, p = args
                obs["ret"] = o[i].fill(self.pe.x(p), 0.5)
            elif action == "NewRefused":
                (s_,) = args
                obs["ret"] = self._new(s_)
            elif action in ("SetDtype", "SetDtypeRefused"):
                i, d = args
                if self.spelling % 2:
                    o[i].set_dtype(NP_DTYPE[d])
                else:
                    o[i].dtype = NP_DTYPE[d]
            elif action == "SetFreqHalf":
                (i,) = args
                h = o[i]
                h.frequencies = np.asarray(h.frequencies) / 2
                h.errors2 = np.asarray(h.errors2) / 4
            elif action == "SetName":
                i, v = args
                o[i].name = f"n{v}"
            elif action == "Merge":
                i, a, inplace, k = args
                r = o[i].merge_bins(a, inplace=inplace, **self._axis_kw())
                o[k] = r
            elif action == "MergeRefused":
                i, a, inplace = args
                obs["ret"] = o[i].merge_bins(a, inplace=inplace, **self._axis_kw())
            elif action == "MergeFracRefused":
                i, inplace = args
                obs["ret"] = o[i].merge_bins(2.5, inplace=inplace, **self._axis_kw())
            elif action == "MergeMinFreq":
                i, t, inplace, k = args
                den = fmap(pre["pool"])[i]["den"]
                r = o[i].merge_bins(min_frequency=t / den if den != 1 else t, inplace=inplace, **self._axis_kw())
                o[k] = r
            elif action == "Slice":
                i, a, b, k = args
                o[k] = o[i][slice(None if a == NONE_IX else a, None if b == NONE_IX else b)]
            elif action == "GetBin":
                i, ix, lo, hi, num = args
                obs["ret"] = o[i][np.int64(ix) if self.spelling % 2 else int(ix)]      # a numpy integer is an integer index too
            elif action == "Take":
                i, idx, how, k = args
                n = o[i].bin_count
                if how == "mask":
                    m = np.zeros(n, dtype=bool)
                    m[list(idx)] = True
                    o[k] = o[i][m]
                elif how == "array":
                    o[k] = o[i][np.array(idx, dtype=int)]
                else:
                    o[k] = o[i][list(idx)]
            elif action == "TakeUnsorted":
                i, idx, k = args
                o[k] = o[i][np.array(idx, dtype=int)] if self.spelling % 2 else o[i][list(idx)]
            elif action == "IndexRefused":
                i, what = args
                h = o[i]
                n = h.bin_count
                if what == "neg_step":
                    obs["ret"] = h[::-1]
                elif what == "mask_short":
                    obs["ret"] = h[np.ones(n - 1, dtype=bool)] if n > 1 else h[np.ones(n + 2, dtype=bool)]
                elif what == "mask_long":
                    obs["ret"] = h[np.ones(n + 1, dtype=bool)]
                elif what == "int_high":
                    obs["ret"] = h[n]
                elif what == "int_low":
                    obs["ret"] = h[-n - 1]
                elif what == "array_high":
                    obs["ret"] = h[np.array([0, n])]
            elif action == "CollSum":
                (k,) = args
                from physt.types import HistogramCollection
                o[k] = HistogramCollection(o[1], o[2]).sum()
            elif action == "CollNormBins":
                (inplace,) = args
                from physt.types import HistogramCollection
                col = HistogramCollection(o[1], o[2])
                res = col.normalize_bins(inplace=inplace)
                obs["ret"] = {"freq": [np.asarray(h.frequencies, dtype=float).tolist() for h in res.histograms],
                              "err2": [np.asarray(h.errors2, dtype=float).tolist() for h in res.histograms],
                              "same": res is col, "members_same": any(a is b for a, b in zip(res.histograms, col.histograms))}
            elif action == "CollCopyFill":
                (p_,) = args
                from physt.types import HistogramCollection
                col = HistogramCollection(o[1], o[2])
                c2 = col.copy()
                c2[0].fill(self.pe.x(p_))
                c2[1].fill_n([self.pe.x(p_)])
                obs["ret"] = {"eq_before": None, "n": len(c2), "names": [h.name for h in c2]}
            elif action == "Drop":
                (k,) = args
                del o[k]
            else:
                raise RuntimeError("unknown action " + action)
        except EXC as ex:
            if isinstance(ex, RuntimeError) and str(ex).startswith("unknown action"):
                raise
            obs["exc"] = f"{type(ex).__name__}: {ex}"
        return o, obs

    # ------------------------------------------------------------------ compare
    TOL = {0: 0.0, 1: 64 * 2.3e-16, 2: 64 * 1.2e-7, 3: 64 * 9.8e-4}

    def _cmp_val(self, got, num, den, sq=False, prec=0):
        exp = Fraction(num, den * den if sq else den)
        if prec == 0 and pow2(den):
            return feq(got, exp)
        try:
            g = float(got)
        except Exception:
            return False
        e = float(exp)
        return abs(g - e) <= self.TOL[max(prec, 1)] * max(abs(e), 1e-300)

    def compare_member(self, h, rec, view, bad, det, key):
        L = rec["bins"]
        n = len(L)
        den = rec["den"]
        prec = rec.get("prec", 0)

        def fail(f, exp, got):
            bad.append(f)
            det[f"{key}.{f}"] = {"expected": exp, "observed": got}
        if "bins" in view:
            exp = np.array(self.pe.edges(L))
            got = np.asarray(h.bins)
            if got.shape != exp.shape or not np.array_equal(got, exp):
                fail("bins", exp.tolist(), got.tolist())
            # every representation of the bins, not only the pairs (they are cached separately by the binning)
            lefts, rights = np.asarray(h.bin_left_edges), np.asarray(h.bin_right_edges)
            if lefts.shape != (n,) or rights.shape != (n,) or not (np.array_equal(lefts, exp[:, 0]) and np.array_equal(rights, exp[:, 1])):
                fail("bins", exp.tolist(), {"bin_left_edges": lefts.tolist(), "bin_right_edges": rights.tolist()})
            if consecutive(L) and n:
                want = np.concatenate([exp[:, 0], exp[-1:, 1]])
                for attr in ("numpy_bins", "edges"):
                    e_ = np.asarray(getattr(h, attr))
                    if e_.shape != want.shape or not np.array_equal(e_, want):
                        fail("bins", want.tolist(), {attr: e_.tolist()})
                        break
        if "freq" in view:
            got = np.asarray(h.frequencies)
            if got.shape != (n,) or not all(self._cmp_val(got[i], rec["freq"][i], den, False, prec) for i in range(n)):
                fail("freq", [f"{v}/{den}" for v in rec["freq"]], got.tolist())
        if "err2" in view:
            got = np.asarray(h.errors2)
            if got.shape != (n,) or not all(self._cmp_val(got[i], rec["err2"][i], den, True, prec) for i in range(n)):
                fail("err2", [f"{v}/{den * den}" for v in rec["err2"]], got.tolist())
        if "keep" in view and bool(h.keep_missed) != rec["keep"]:
            fail("keep", rec["keep"], h.keep_missed)
        for fld, attr in (("under", "underflow"), ("over", "overflow")):
            if fld not in view:
                continue
            got = getattr(h, attr)
            sv = rec[fld]
            if sv == ANYVAL:
                continue
            if sv == UNKNOWN:
                ok = isnan(got)
            else:
                ok = self._cmp_val(got, sv, den, False, prec)
            if not ok:
                fail(fld, "nan" if sv == UNKNOWN else f"{sv}/{den}", repr(got))
        if "dtype" in view:
            want = np.dtype(NP_DTYPE[rec["dtype"]])
            got = (np.dtype(h.dtype), h.frequencies.dtype, h.errors2.dtype)
            if not all(g == want for g in got):
                fail("dtype", str(want), [str(g) for g in got])
        if "dtype_consistent" in view:
            got = (np.dtype(h.dtype), h.frequencies.dtype, h.errors2.dtype)
            if not (got[0] == got[1] == got[2]):
                fail("dtype_consistent", "reported dtype == dtype of frequencies == dtype of errors2", [str(g) for g in got])
        if "name" in view:
            want = f"n{rec['name']}" if rec["name"] else None
            if h.name != want:
                fail("name", want, h.name)
        if "stats" in view:
            try:
                st = h.statistics
            except EXC as ex:
                fail("stats", "statistics available", f"{type(ex).__name__}: {ex}")
                st = None
            if st is not None:
                if rec["stv"] == "invalid":
                    if not (isnan(st.weight) and isnan(st.mean())):
                        fail("stats", "invalid (NaN)", repr(st))
                elif rec["allIn"] and self.pe.name in self.STATS_EXACT:
                    s = rec["st"]
                    a, b = self.pe.affine
                    w = Fraction(s["w"], den)
                    s1 = (a * s["s1"] + b * s["w"]) / den
                    s2 = (a * a * s["s2"] + 2 * a * b * s["s1"] + b * b * s["w"]) / den
                    exact = pow2(den) and prec == 0
                    tol = self.TOL[max(prec, 1)]

                    def c(got, exp):
                        if exact:
                            return feq(got, exp)
                        return abs(float(got) - float(exp)) <= tol * max(abs(float(exp)), 1e-300)
                    ok = c(st.weight, w) and c(st.sum, s1) and c(st.sum2, s2)
                    if s["mn"] == POSINF:
                        ok = ok and st.min == np.inf and st.max == -np.inf
                    else:
                        ok = ok and st.min == self.pe.x(s["mn"]) and st.max == self.pe.x(s["mx"])
                    if ok and w > 0:
                        mean = s1 / w
                        var = (s2 - s1 * s1 / w) / w
                        ok = abs(float(st.mean()) - float(mean)) <= 2 * tol * max(abs(float(mean)), 1e-300)
                        vtol = 4 * tol * max(float(s2), float(s1) ** 2 / float(w)) / float(w)
                        ok = ok and abs(float(st.variance()) - float(var)) <= vtol
                    if not ok:
                        fail("stats", {"weight": str(w), "sum": str(s1), "sum2": str(s2), "mn": s["mn"], "mx": s["mx"]}, repr(st))

    def compare(self, real, obs, post, action, args, pre, view) -> Optional[Mismatch]:
        bad, det = [], {}
        if obs.get("skipped"):
            return None
        # two slots of the pool never hold one and the same object (a "derived" histogram that is its source)
        ids = {}
        for k_, v_ in real.items():
            if id(v_) in ids:
                bad.append("identity"); det["identity"] = f"slots {ids[id(v_)]} and {k_} hold the same object"
            ids[id(v_)] = k_
        live_ = [(k_, v_) for k_, v_ in real.items() if hasattr(v_, "frequencies")]
        for x_ in range(len(live_)):
            for y_ in range(x_ + 1, len(live_)):
                for attr in ("frequencies", "errors2"):
                    a_, b_ = getattr(live_[x_][1], attr), getattr(live_[y_][1], attr)
                    if isinstance(a_, np.ndarray) and isinstance(b_, np.ndarray) and a_.size and np.shares_memory(a_, b_):
                        bad.append("aliasing"); det["aliasing"] = f"slots {live_[x_][0]} and {live_[y_][0]} share the memory of their {attr}"
        refusal = action in REFUSALS
        if refusal:
            if obs["exc"] is None and "refused" in view:
                bad.append("refused")
                det["refused"] = {"expected": "an exception", "observed": "call accepted"}
        elif obs["exc"] is not None:
            return Mismatch(["accepted"], {"raised": obs["exc"]})
        if action == "GetBin" and "ret" in view and obs["exc"] is None:
            i, ix, lo, hi, num = args
            rec = fmap(pre["pool"])[i]
            try:
                edges, content = obs["ret"]
                ok = (float(edges[0]) == self.pe.x(lo) and float(edges[1]) == self.pe.x(hi)
                      and self._cmp_val(content, num, rec["den"], False, rec.get("prec", 0)))
            except Exception:
                ok = False
            if not ok:
                bad.append("ret")
                det["ret"] = {"expected": ([self.pe.x(lo), self.pe.x(hi)], f"{num}/{rec['den']}"), "observed": repr(obs["ret"])}
        if action == "CollNormBins" and obs["exc"] is None:
            recs = fmap(pre["pool"])
            r = obs["ret"]
            okc = not r["same"] and not r["members_same"]
            n = len(recs[1]["freq"])
            for b in range(n):
                v = [Fraction(recs[i]["freq"][b], recs[i]["den"]) for i in (1, 2)]
                e = [Fraction(recs[i]["err2"][b], recs[i]["den"] ** 2) for i in (1, 2)]
                tot = v[0] + v[1]
                if tot == 0:
                    continue
                for i in (0, 1):
                    want, ewant = float(v[i] / tot), float(e[i] / (tot * tot))
                    if abs(r["freq"][i][b] - want) > 16 * 2.3e-16 * max(want, 1e-300) or abs(r["err2"][i][b] - ewant) > 16 * 2.3e-16 * max(ewant, 1e-300):
                        okc = False
                if abs(r["freq"][0][b] + r["freq"][1][b] - 1) > 1e-12:
                    okc = False
            if not okc:
                bad.append("shares")
                det["shares"] = {"observed": r}
        pool = fmap(post["pool"])
        live = {i for i, r in pool.items() if "null" not in r}
        if set(real.keys()) != live:
            bad.append("live")
            det["live"] = {"expected": sorted(live), "observed": sorted(real.keys())}
        v = set(view)
        if refusal and "dtype" in v:
            v.discard("dtype")      # a refused call may already have promoted the dtype (C18) ...
            v.add("dtype_consistent")   # ... but the reported dtype must stay the arrays' dtype
        for i in sorted(live & set(real.keys())):
            h = real[i]
            if not isinstance(h, self.Histogram1D):
                bad.append("class")
                det[f"{i}.class"] = {"expected": "Histogram1D", "observed": type(h).__name__}
                continue
            try:
                self.compare_member(h, pool[i], v, bad, det, str(i))
            except EXC as ex:
                bad.append("snapshot")
                det[f"{i}.snapshot"] = f"{type(ex).__name__}: {ex}"
        if bad:
            return Mismatch(sorted(set(bad)), det)
        return None

    def build(self, state):
        pool = fmap(state["pool"])
        out = {}
        from physt.statistics import Statistics, INVALID_STATISTICS
        from physt.binnings import StaticBinning
        for i, r in pool.items():
            if "null" in r:
                continue
            den = r["den"]
            dt = NP_DTYPE[r["dtype"]]
            if den != 1 and np.dtype(dt).kind in "iu":
                dt = np.float64       # fractional contents under an integer label (views without dtype): keep the values
            st = r["st"]
            stats = INVALID_STATISTICS
            if r["stv"] == "ok" and self.pe.affine is not None:
                a, b = self.pe.affine
                stats = Statistics(
                    weight=float(Fraction(st["w"], den)), sum=float((a * st["s1"] + b * st["w"]) / den),
                    sum2=float((a * a * st["s2"] + 2 * a * b * st["s1"] + b * b * st["w"]) / den),
                    min=self.pe.x(st["mn"]) if st["mn"] != POSINF else np.inf,
                    max=self.pe.x(st["mx"]) if st["mx"] != NEGINF else -np.inf)
            try:
                h = self.Histogram1D(
                    StaticBinning(np.array(self.pe.edges(r["bins"]))),
                    np.array([v / den for v in r["freq"]]).astype(dt), np.array([v / den / den for v in r["err2"]]).astype(dt),
                    keep_missed=r["keep"], dtype=dt, stats=stats,
                    underflow=(np.nan if r["under"] in (UNKNOWN, ANYVAL) else r["under"] / den) if r["keep"] else 0,
                    overflow=(np.nan if r["over"] in (UNKNOWN, ANYVAL) else r["over"] / den) if r["keep"] else 0,
                    name=f"n{r['name']}" if r["name"] else None)
            except EXC:
                return None
            out[i] = h
        return out

    def tag(self, action, args, pre, real=None):
        pool = fmap(pre["pool"])

        def kind(i):
            r = pool.get(i)
            if r is None or "null" in r:
                return "-"
            return f"{r['dtype']}{'k' if r['keep'] else 'n'}{'d' if r['den'] != 1 else ''}{'s' if r['stv'] == 'ok' else 'x'}{len(r['bins'])}"
        if action == "New":
            s = args[1]
            sub = ""
            if not consecutive(s["L"]):
                e = np.array(self.pe.edges(s["L"]))
                # physt's is_consecutive uses numpy.allclose (atol 1e-8, rtol 1e-5): gaps below that are not seen
                sub = "/~subtol" if np.allclose(e[1:, 0], e[:-1, 1], 1.0e-5, 1.0e-8) else "/gapped"
            return f"New/{s['dtype']}/{'w' if s['weighted'] else 'u'}/{'keep' if s['keep'] else 'nokeep'}/{len(s['batch'])}{sub}"
        if action in ("Add", "Sub"):
            return f"{action}/{kind(args[0])}/{kind(args[1])}/{'self' if args[0] == args[1] else 'other'}" + ("/free" if action == "Sub" and args[3] else "")
        if action in ("IAdd", "ISub", "AddRefused", "IAddRefused", "ISubRefused"):
            return f"{action}/{kind(args[0])}/{kind(args[1])}/{'self' if args[0] == args[1] else 'other'}" + ("/free" if action == "ISub" and args[2] else "")
        if action == "ForeignRefused":
            return f"ForeignRefused/{args[1]}/{kind(args[0])}"
        if action in ("Mul", "IMul", "Div", "IDiv"):
            c = args[1]
            return f"{action}/{kind(args[0])}/{c[0]}_{c[1]}_{c[2]}" + ("/r" if action == "Mul" and args[3] else "")
        if action == "Normalize":
            return f"Normalize/{kind(args[0])}/{'pct' if args[1] else 'one'}/{'inplace' if args[2] else 'copy'}"
        if action == "Fill":
            r = pool[args[0]]
            return f"Fill/{pos_class(r['bins'], args[1])}/{kind(args[0])}/w{args[2]}"
        if action in ("SetDtype", "SetDtypeRefused"):
            return f"{action}/{kind(args[0])}/{args[1]}"
        if action == "Merge":
            return f"Merge/{kind(args[0])}/{args[1]}/{'inplace' if args[2] else 'copy'}"
        if action == "MergeRefused":
            return f"MergeRefused/{kind(args[0])}/{args[1]}/{'inplace' if args[2] else 'copy'}"
        if action == "MergeFracRefused":
            return f"MergeFracRefused/{kind(args[0])}/{'inplace' if args[1] else 'copy'}"
        if action == "MergeMinFreq":
            return f"MergeMinFreq/{kind(args[0])}/{args[1]}/{'inplace' if args[2] else 'copy'}"
        if action == "GetBin":
            return f"GetBin/{kind(args[0])}/{args[1]}"
        if action == "Take":
            return f"Take/{kind(args[0])}/{args[2]}/{'-'.join(str(x) for x in args[1])}"
        if action == "TakeUnsorted":
            return f"TakeUnsorted/{kind(args[0])}/{'-'.join(str(x) for x in args[1])}"
        if action == "IndexRefused":
            return f"IndexRefused/{args[1]}/{kind(args[0])}"
        if action == "Slice":
            return f"Slice/{kind(args[0])}/{args[1]}:{args[2]}"
        if action == "NewRefused":
            s = args[0]
            return f"NewRefused/{s['dtype']}/den{s['den']}"
        if action == "FillHalf":
            r = pool[args[0]]
            return f"FillHalf/{pos_class(r['bins'], args[1])}/{kind(args[0])}"
        if action in ("CollSum", "CollNormBins", "CollCopyFill"):
            return f"{action}/{kind(1)}/{kind(2)}"
        if action in ("Copy", "CopyEmpty", "NegRefused", "DivZeroRefused", "SetName", "Drop", "SetFreqHalf"):
            return f"{action}/{kind(args[0])}"
        return action

    def describe(self, action, args, pre):
        d = {"action": action, "args": repr(args), "embedding": self.pe.name, "spelling": self.spelling}
        pool = fmap(pre.get("pool", {}))
        d["pre"] = {str(i): ({"bins": self.pe.edges(r["bins"]), "freq": list(r["freq"]), "den": r["den"], "dtype": r["dtype"],
                              "under": r["under"], "over": r["over"], "keep": r["keep"]} if "null" not in r else None)
                    for i, r in pool.items()}
        return d
