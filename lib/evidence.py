"""Evidence files (schema: /root/.vp/EVIDENCE.schema.json), written from measured counts."""
from __future__ import annotations

import json
import os

VERIF = os.path.dirname(os.path.dirname(os.path.abspath(__file__)))


def _plain(o):
    if isinstance(o, dict):
        return {str(k): _plain(v) for k, v in o.items()}
    if isinstance(o, (list, tuple, set, frozenset)):
        return [_plain(x) for x in o]
    if isinstance(o, (int, float, str, bool)) or o is None:
        if isinstance(o, float) and o != o:
            return "nan"
        return o
    try:
        import numpy as np
        if isinstance(o, np.generic):
            return _plain(o.item())
        if isinstance(o, np.ndarray):
            return _plain(o.tolist())
    except Exception:
        pass
    return repr(o)


def write(prop, tier, seed, coverage, wall_s, violations, assumptions, level="model_checking"):
    edir = os.environ.get("VERIF_EVIDENCE_DIR") or os.path.join(VERIF, "evidence")
    os.makedirs(edir, exist_ok=True)
    doc = {
        "property_id": prop,
        "tier": tier,
        "seed": int(seed),
        "level": level,
        "coverage": _plain(coverage),
        "assumptions": list(assumptions),
        "wall_s": round(float(wall_s), 2),
        "violations": int(violations),
    }
    path = os.path.join(edir, f"{prop}.json")
    with open(path, "w") as f:
        json.dump(doc, f, indent=1, sort_keys=False)
    return path


def replay_dir():
    e = os.environ.get("VERIF_EVIDENCE_DIR")
    return os.path.join(e, "replays") if e else os.path.join(VERIF, "replays")


def write_replay(prop, rec, idx=0):
    d = replay_dir()
    os.makedirs(d, exist_ok=True)
    path = os.path.join(d, f"{prop}-{idx}.json")
    with open(path, "w") as f:
        json.dump(_plain(rec), f, indent=1)
    return path
