"""Adapter binding spec/PhystGeom.tla to bin geometry, densities and cumulative values."""
from __future__ import annotations

import math
from fractions import Fraction
from typing import Optional

import numpy as np

from .a_binnings import ulps
from .a_hist1d import consecutive
from .a_pool import EXC
from .embed import PosEmb
from .replay import Adapter, Mismatch

LEN_POWER = {"polar": 2, "radial": 2, "azimuthal": 0, "spherical": 3, "sphsurf": 0, "cylindrical": 3, "cylsurf": 1}
KLASS = {"polar": "PolarHistogram", "radial": "RadialHistogram", "azimuthal": "AzimuthalHistogram", "spherical": "SphericalHistogram",
         "sphsurf": "SphericalSurfaceHistogram", "cylindrical": "CylindricalHistogram", "cylsurf": "CylindricalSurfaceHistogram"}


class GeomAdapter(Adapter):
    name = "PhystGeom"

    def __init__(self, pe: PosEmb, redges, zedges, nphi, ntheta, contents, scale=1.0):
        self.pe, self.nphi, self.ntheta, self.scale = pe, nphi, ntheta, scale
        self.redges = [float(e) * scale for e in redges]
        self.zedges = [float(e) * scale for e in zedges]
        self.contents = contents
        from physt import special_histograms as S
        from physt.types import Histogram1D, Histogram2D
        from physt.binnings import StaticBinning
        self.S, self.H1, self.H2, self.SB = S, Histogram1D, Histogram2D, StaticBinning

    def initial(self, state):
        return {}

    def apply(self, real, action, args, pre):
        return real, {"exc": None, "ret": None}

    def _close(self, got, want, tol=8):
        return ulps(float(got), float(want)) <= tol

    def compare(self, real, obs, post, action, args, pre, view) -> Optional[Mismatch]:
        bad, det = [], {}

        def fail(f, exp, got):
            bad.append(f)
            det[f] = {"expected": exp, "observed": got}
        try:
            if action == "Geometry1D":
                L, widths, centers2, total, cum = args
                a = self.pe.affine[0]
                freq = np.array(self.contents[tuple(L)], dtype=float) * 0.5
                h = self.H1(self.SB(np.array(self.pe.edges(L))), freq, dtype=float)
                x = self.pe.x
                if [float(v) for v in h.bin_widths] != [x(r) - x(l) for (l, r) in L] or [float(v) for v in h.bin_sizes] != [float(a * w) for w in widths]:
                    fail("widths", [float(a * w) for w in widths], h.bin_widths.tolist())
                if [float(v) for v in h.bin_centers] != [(x(l) + x(r)) / 2 for (l, r) in L]:
                    fail("centers", [(x(l) + x(r)) / 2 for (l, r) in L], h.bin_centers.tolist())
                if float(h.total_width) != float(a * total):
                    fail("total_width", float(a * total), float(h.total_width))
                if [float(v) for v in h.bin_left_edges] != [x(l) for (l, r) in L] or [float(v) for v in h.bin_right_edges] != [x(r) for (l, r) in L]:
                    fail("edges", self.pe.edges(L), [h.bin_left_edges.tolist(), h.bin_right_edges.tolist()])
                if float(h.min_edge) != x(L[0][0]) or float(h.max_edge) != x(L[-1][1]):
                    fail("min_max_edge", [x(L[0][0]), x(L[-1][1])], [float(h.min_edge), float(h.max_edge)])
                if [float(v) for v in h.cumulative_frequencies] != [c * 0.5 for c in cum] or float(h.cumulative_frequencies[-1]) != float(h.total):
                    fail("cumulative", [c * 0.5 for c in cum], h.cumulative_frequencies.tolist())
                # integer contents of every supported width: each bin fits the type, the running sum does not have to
                for dt in (np.int16, np.int32, np.int64):
                    ints = [int(c) for c in self.contents[tuple(L)]]
                    K = int(np.iinfo(dt).max // max(max(ints), 1)) if dt is not np.int64 else 3
                    hi = self.H1(self.SB(np.array(self.pe.edges(L))), (np.array(ints, dtype=np.int64) * K).astype(dt))
                    want, run = [], 0
                    for c in ints:
                        run += c * K
                        want.append(run)
                    got = [int(v) for v in hi.cumulative_frequencies]
                    if np.dtype(hi.dtype) != np.dtype(dt) or got != want or int(hi.total) != want[-1]:
                        fail("cumulative", {"dtype": np.dtype(dt).name, "running_sum": want}, {"dtype": str(hi.dtype), "running_sum": got, "total": int(hi.total)})
                        break
                dens = np.asarray(h.densities)
                if not all(self._close(dens[i] * h.bin_sizes[i], freq[i], 2) for i in range(len(L))):
                    fail("densities", freq.tolist(), (dens * h.bin_sizes).tolist())
                if consecutive(L) and [float(v) for v in h.numpy_bins] != [x(L[0][0])] + [x(r) for (_l, r) in L]:
                    fail("numpy_bins", None, h.numpy_bins.tolist())
                # a selection of the bins (after the forms above have been read and cached) has forms of its own
                if len(L) >= 2:
                    for sel, Ls in ((slice(1, None), L[1:]), (slice(None, -1), L[:-1])):
                        sub = h[sel]
                        forms = {"bins": np.asarray(sub.bins).tolist(), "left": [float(v) for v in sub.bin_left_edges],
                                 "right": [float(v) for v in sub.bin_right_edges], "widths": [float(v) for v in sub.bin_widths],
                                 "centers": [float(v) for v in sub.bin_centers]}
                        want = {"bins": [[x(l), x(r)] for (l, r) in Ls], "left": [x(l) for (l, r) in Ls], "right": [x(r) for (l, r) in Ls],
                                "widths": [x(r) - x(l) for (l, r) in Ls], "centers": [(x(l) + x(r)) / 2 for (l, r) in Ls]}
                        if consecutive(Ls):
                            forms["numpy_bins"] = [float(v) for v in sub.numpy_bins]
                            forms["edges"] = [float(v) for v in sub.edges]
                            want["numpy_bins"] = want["edges"] = [x(Ls[0][0])] + [x(r) for (_l, r) in Ls]
                        if forms != want:
                            fail("selection_forms", want, forms)
                            break
            elif action == "Geometry2D":
                LL, sizes, total = args
                a = self.pe.affine[0]
                shape = (len(LL[0]), len(LL[1]))
                freq = (np.arange(shape[0] * shape[1], dtype=float).reshape(shape) + 1) * 0.5
                h = self.H2([self.SB(np.array(self.pe.edges(L))) for L in LL], freq, dtype=float)
                want = np.array([[float(a * a * s) for s in row] for row in sizes])
                if h.bin_sizes.shape != want.shape or not np.array_equal(h.bin_sizes, want):
                    fail("bin_sizes", want.tolist(), np.asarray(h.bin_sizes).tolist())
                if float(h.total_size) != float(a * a * total):
                    fail("total_size", float(a * a * total), float(h.total_size))
                x = self.pe.x
                for ax in range(2):
                    w = [x(r) - x(l) for (l, r) in LL[ax]]
                    c = [(x(l) + x(r)) / 2 for (l, r) in LL[ax]]
                    if h.get_bin_widths(ax).tolist() != w or h.get_bin_centers(ax).tolist() != c:
                        fail("axis_forms", [w, c], [h.get_bin_widths(ax).tolist(), h.get_bin_centers(ax).tolist()])
                    mesh_w, mesh_c = h.get_bin_widths()[ax], h.get_bin_centers()[ax]
                    mesh_l, mesh_r = h.get_bin_left_edges()[ax], h.get_bin_right_edges()[ax]
                    for i in range(shape[0]):
                        for j in range(shape[1]):
                            k = (i, j)[ax]
                            if mesh_w.shape != shape or mesh_w[i, j] != w[k] or mesh_c[i, j] != c[k] or mesh_l[i, j] != x(LL[ax][k][0]) or mesh_r[i, j] != x(LL[ax][k][1]):
                                fail("mesh_forms", "mesh[ax][i, j] == per-axis value of index (i, j)[ax]", f"axis {ax} cell {(i, j)}")
                                break
                        else:
                            continue
                        break
                edges = h.get_bin_edges()
                if edges[0].shape != (shape[0] + 1, shape[1] + 1):
                    fail("edge_mesh", (shape[0] + 1, shape[1] + 1), edges[0].shape)
                dens = np.asarray(h.densities)
                if not all(self._close(dens[ix] * h.bin_sizes[ix], freq[ix], 2) for ix in np.ndindex(*shape)):
                    fail("densities", freq.tolist(), (dens * h.bin_sizes).tolist())
                # per-axis selection after the forms above were read: edges, widths and sizes of the part
                if shape[0] >= 2:
                    _ = h.get_bin_edges()
                    sub = h[1:, :]
                    Ls = LL[0][1:]
                    we = [x(Ls[0][0])] + [x(r) for (_l, r) in Ls] if consecutive(Ls) else None
                    got_e = [float(v) for v in sub.binnings[0].numpy_bins] if we is not None else None
                    ws = [x(r) - x(l) for (l, r) in Ls]
                    if got_e != we or sub.get_bin_widths(0).tolist() != ws or np.asarray(sub.bin_sizes).shape != (shape[0] - 1, shape[1]) \
                            or not np.array_equal(np.asarray(sub.bin_sizes), np.asarray(h.bin_sizes)[1:, :]):
                        fail("selection_forms", {"edges": we, "widths": ws}, {"edges": got_e, "widths": sub.get_bin_widths(0).tolist()})
            elif action == "Measures":
                cls, table = args
                r, z = np.array(self.redges), np.array(self.zedges)
                phi = np.linspace(0, 2 * np.pi, self.nphi + 1)
                th = np.linspace(0, np.pi, self.ntheta + 1)
                bs = {"polar": [r, phi], "radial": [r], "azimuthal": [phi], "spherical": [r, th, phi], "sphsurf": [th, phi],
                      "cylindrical": [r, phi, z], "cylsurf": [phi, z]}[cls]
                k = getattr(self.S, KLASS[cls])
                shape = tuple(len(b) - 1 for b in bs)
                freq = (np.arange(int(np.prod(shape)), dtype=float).reshape(shape) + 1)
                h = k(bs[0], freq, dtype=float) if len(bs) == 1 else k(bs, freq, dtype=float)
                sizes = np.asarray(h.bin_sizes)
                want = np.zeros(shape)

                def walk(t, ix):
                    if len(ix) == len(shape):
                        num, den, p = t
                        want[ix] = num / den * math.pi ** p * self.scale ** LEN_POWER[cls]
                    else:
                        for i, sub in enumerate(t):
                            walk(sub, ix + (i,))
                walk(table, ())
                if sizes.shape != shape or not all(self._close(sizes[ix], want[ix], 16) for ix in np.ndindex(*shape)):
                    fail("bin_sizes", want.tolist(), sizes.tolist())
                dens = np.asarray(h.densities)
                if not all(self._close(dens[ix] * sizes[ix], freq[ix], 2) for ix in np.ndindex(*shape)):
                    fail("densities", freq.tolist(), (dens * sizes).tolist())
                if hasattr(h, "total_size") and not self._close(h.total_size, want.sum(), 64):
                    fail("total_size", float(want.sum()), float(h.total_size))
                # the surface classes as they come out of a projection (which records the radius of the source) or with a radius
                # given: the measure of a cell in the histogram's own coordinates does not depend on it
                derived = []
                if cls == "cylsurf":
                    src = self.S.CylindricalHistogram([r[-2:], phi, z], np.ones((1, len(phi) - 1, len(z) - 1)), dtype=float)
                    derived.append(("projection of a cylinder", src.projection("phi", "z")))
                    derived.append(("radius=2.5", k(bs, freq, dtype=float, radius=2.5)))
                elif cls == "sphsurf":
                    src = self.S.SphericalHistogram([r[-2:], th, phi], np.ones((1, len(th) - 1, len(phi) - 1)), dtype=float)
                    derived.append(("projection of a sphere", src.projection("theta", "phi")))
                    derived.append(("radius=2.5", k(bs, freq, dtype=float, radius=2.5)))
                for how, hd in derived:
                    sd = np.asarray(hd.bin_sizes)
                    if type(hd).__name__ != KLASS[cls] or sd.shape != shape or not all(self._close(sd[ix], want[ix], 16) for ix in np.ndindex(*shape)):
                        fail("bin_sizes", {"how": how, "sizes": want.tolist()}, {"class": type(hd).__name__, "sizes": sd.tolist()})
                        break
        except EXC as ex:
            return Mismatch(["accepted"], {"raised": f"{type(ex).__name__}: {ex}"})
        if bad:
            return Mismatch(sorted(set(bad)), det)
        return None

    def tag(self, action, args, pre, real=None):
        if action == "Measures":
            return f"Measures/{args[0]}"
        if action == "Geometry1D":
            L = args[0]
            return f"Geometry1D/{len(L)}{'c' if consecutive(L) else 'g'}"
        return f"Geometry2D/{len(args[0][0])}x{len(args[0][1])}"

    def describe(self, action, args, pre):
        return {"action": action, "args": repr(args)[:300], "embedding": self.pe.name, "scale": self.scale}
