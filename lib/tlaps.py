"""Running the TLA+ proof system on the proof modules of spec/ (unbounded design-level results)."""
from __future__ import annotations

import os
import re
import shutil
import subprocess
import time

from .tlc import MachineryError, SPEC_DIR, scratch_dir


def run_tlapm(module: str, timeout: int = 1500) -> dict:
    """Check every proof obligation of spec/<module>.tla from scratch (no fingerprints reused)."""
    if shutil.which("tlapm") is None:
        raise MachineryError("tlapm not found")
    sc = scratch_dir("tlaps")
    t0 = time.time()
    try:
        p = subprocess.run(["tlapm", "--cache-dir", sc, "--cleanfp", "--threads", "8", module + ".tla"], cwd=SPEC_DIR,
                           capture_output=True, text=True, timeout=timeout)
    except subprocess.TimeoutExpired as ex:
        raise MachineryError(f"tlapm timeout on {module}") from ex
    finally:
        shutil.rmtree(sc, ignore_errors=True)
    out = p.stdout + p.stderr
    m = re.search(r"All (\d+) obligations? proved", out)
    if not m or p.returncode != 0:
        raise MachineryError(f"tlapm: proof of {module} does not check:\n" + "\n".join(out.splitlines()[-25:]))
    return {"module": module, "tool": "tlapm", "obligations_proved": int(m.group(1)), "wall_s": round(time.time() - t0, 1), "ok": True}
