"""Adapter binding spec/PhystSpecial.tla to physt.special_histograms and the facade functions."""
from __future__ import annotations

import math
from fractions import Fraction
from typing import Optional

import numpy as np

from .a_pool import EXC
from .embed import InputGuard
from .replay import Adapter, Mismatch

NO_CELL = (-7,)
CLS = {"polar": "PolarHistogram", "radial2": "RadialHistogram", "radial3": "RadialHistogram", "azimuthal": "AzimuthalHistogram",
       "spherical": "SphericalHistogram", "sphsurf": "SphericalSurfaceHistogram", "cylindrical": "CylindricalHistogram",
       "cylsurf": "CylindricalSurfaceHistogram", "plain": None}
REFUSALS = {"WrongDim"}


class SpecialAdapter(Adapter):
    name = "PhystSpecial"

    def __init__(self, redges, zedges, nphi, ntheta, scale=1.0, negzero=False, spelling=0):
        self._re_int = [int(e) for e in redges]
        self.redges = [float(e) * scale for e in redges]
        self.zedges = [float(e) * scale for e in zedges]
        self.nphi, self.ntheta, self.scale, self.negzero, self.spelling = nphi, ntheta, scale, negzero, spelling
        import physt
        from physt import special_histograms as S
        from physt.binnings import StaticBinning
        self.physt, self.S, self.StaticBinning = physt, S, StaticBinning

    def initial(self, state):
        return {}

    # ------------------------------------------------------------ gamma
    def _pt(self, p):
        out = []
        for i, c in enumerate(p):
            v = float(c) * self.scale
            # signed zeros: atan2(+-0, -0.0) is +-pi by IEEE, so only y and z get a negative zero (x = -0.0 is another point)
            if c == 0 and self.negzero and (i == 1 or (i == 2 and (p[0] != 0 or p[1] != 0))):
                v = -0.0
            out.append(v)
        return out

    def _phi_edges(self):
        return np.linspace(0, 2 * np.pi, self.nphi + 1)

    def _theta_edges(self):
        return np.linspace(0, np.pi, self.ntheta + 1)

    def _binnings(self, cls):
        r, z = np.array(self.redges), np.array(self.zedges)
        return {"polar": [r, self._phi_edges()], "radial2": [r], "radial3": [r], "azimuthal": [self._phi_edges()],
                "spherical": [r, self._theta_edges(), self._phi_edges()], "sphsurf": [self._theta_edges(), self._phi_edges()],
                "cylindrical": [r, self._phi_edges(), z], "cylsurf": [self._phi_edges(), z]}[cls]

    def _klass(self, cls):
        return getattr(self.S, CLS[cls])

    def _facade(self, cls, pts, transformed):
        S = self.S
        arr = np.array(pts, dtype=float).reshape(-1, 3 if cls in ("radial3", "spherical", "sphsurf", "cylindrical", "cylsurf") else 2)
        self._guard.track(arr)
        data = arr
        if transformed:
            data = self._klass(cls).transform(arr) if len(arr) else np.zeros((0, len(self._binnings(cls))))
        r, z = np.array(self.redges), np.array(self.zedges)
        kw = {"transformed": True} if transformed else {}
        if cls == "polar":
            return S.polar(data[:, 0], data[:, 1], radial_bins=r, phi_bins=self.nphi, **kw)
        if cls in ("radial2", "radial3"):
            if transformed:
                return S.radial(np.asarray(data).ravel(), bins=r, **kw)
            if cls == "radial2":
                return S.radial(arr[:, 0], arr[:, 1], bins=r)
            return S.radial(arr, bins=r) if self.spelling % 2 else S.radial(arr[:, 0], arr[:, 1], arr[:, 2], bins=r)
        if cls == "azimuthal":
            if transformed:
                return S.azimuthal(np.asarray(data).ravel(), bins=self.nphi, **kw)
            return S.azimuthal(arr[:, 0], arr[:, 1], bins=self.nphi)
        if cls == "spherical":
            return S.spherical(data, radial_bins=r, theta_bins=self.ntheta, phi_bins=self.nphi, **kw)
        if cls == "sphsurf":
            return S.spherical_surface(data, theta_bins=self.ntheta, phi_bins=self.nphi, **kw)
        if cls == "cylindrical":
            return S.cylindrical(data, rho_bins=r, phi_bins=self.nphi, z_bins=z, **kw)
        if cls == "cylsurf":
            return S.cylindrical_surface(data, phi_bins=self.nphi, z_bins=z, **kw)
        raise RuntimeError(cls)

    def apply(self, real, action, args, pre):
        obs = {"exc": None, "ret": None}
        o = real
        self._guard = guard = InputGuard()
        try:
            if action == "Facade":
                cls, batch, transformed = args
                o["h"] = self._facade(cls, [self._pt(p) for p in batch], transformed)
            elif action == "NewEmpty":
                (cls,) = args
                bs = self._binnings(cls)
                k = self._klass(cls)
                o["h"] = k(bs[0]) if len(bs) == 1 else k(bs)
            elif action in ("Fill", "FindBin"):
                p, transformed, ret = args
                h = o["h"]
                pt = np.array(self._pt(p))
                if transformed:
                    pt = type(h).transform(pt)
                    if np.ndim(pt) > 1:
                        pt = pt[0]
                    if np.ndim(pt) == 1 and h.ndim == 1:
                        pt = pt[0]
                kw = {"transformed": True} if transformed else {}
                guard.track(pt)
                obs["ret"] = h.fill(pt, **kw) if action == "Fill" else h.find_bin(pt, **kw)
            elif action == "FillN":
                batch, transformed = args
                h = o["h"]
                dim_src = 3 if pre["h"]["cls"] in ("radial3", "spherical", "sphsurf", "cylindrical", "cylsurf") else 2
                arr = np.array([self._pt(p) for p in batch], dtype=float).reshape(-1, dim_src)
                kw = {}
                if transformed:
                    arr = type(h).transform(arr) if len(arr) else (np.zeros((0,)) if h.ndim == 1 else np.zeros((0, h.ndim)))
                    kw = {"transformed": True}
                h.fill_n(guard.track(arr), **kw)
            elif action == "WrongDim":
                (how,) = args
                h = o["h"]
                src3 = pre["h"]["cls"] in ("radial3", "spherical", "sphsurf", "cylindrical", "cylsurf")
                bad = np.array([1.0, 2.0, 3.0, 4.0]) if pre["h"]["cls"].startswith("radial") else (np.array([1.0, 2.0]) if src3 else np.array([1.0, 2.0, 3.0]))
                if how == "fill":
                    obs["ret"] = h.fill(bad)
                elif how == "fill_n":
                    obs["ret"] = h.fill_n(np.array([bad, bad]))
                elif how == "find_bin":
                    obs["ret"] = h.find_bin(bad)
                else:
                    obs["ret"] = type(h).transform(bad)
            elif action == "Project":
                (axes,) = args
                a = [i - 1 for i in axes]
                if self.spelling % 2:
                    a = [o["h"].axis_names[i] for i in a]
                o["d"] = o["h"].projection(*a)
                # the same projection of the histogram scaled by 3 (contents x 3, squared errors x 9): contents AND errors of a
                # projection are sums over the dropped axes, so the two projections differ by exactly these factors
                h3 = o["h"] * 3
                d3 = h3.projection(*a)
                obs["scaled_projection"] = (np.asarray(d3.frequencies, dtype=float).tolist(), np.asarray(d3.errors2, dtype=float).tolist(),
                                            (3 * np.asarray(o["d"].frequencies, dtype=float)).tolist(), (9 * np.asarray(o["d"].errors2, dtype=float)).tolist())
            else:
                raise RuntimeError("unknown action " + action)
        except EXC as ex:
            if isinstance(ex, RuntimeError) and str(ex).startswith("unknown action"):
                raise
            obs["exc"] = f"{type(ex).__name__}: {ex}"
        obs["inputs_changed"] = guard.changed()
        return o, obs

    # ------------------------------------------------------------ compare
    def _shape(self, cls):
        return tuple(len(b) - 1 for b in self._binnings(cls))

    def _cmp(self, x, rec, bad, det, key, shape):
        got = np.asarray(x.frequencies)
        exp = np.zeros(shape, dtype=int)
        for cell, c in rec["cont"]:
            exp[tuple(cell)] = c
        if got.shape != exp.shape or not np.array_equal(got, exp):
            bad.append("freq")
            det[key + ".freq"] = {"expected": {str(tuple(c)): n for c, n in rec["cont"]}, "observed": {str(ix): int(got[ix]) for ix in np.argwhere(got != 0).tolist() and [tuple(i) for i in np.argwhere(got != 0).tolist()]} if got.shape == exp.shape else got.shape}

    def compare(self, real, obs, post, action, args, pre, view) -> Optional[Mismatch]:
        bad, det = [], {}
        if obs.get("inputs_changed"):
            bad.append("inputs"); det["inputs"] = obs["inputs_changed"][:2]      # the caller's arrays were overwritten
        if action in REFUSALS:
            if obs["exc"] is None:
                return Mismatch(["refused"], {"expected": "an exception", "observed": repr(obs["ret"])})
        elif obs["exc"] is not None:
            return Mismatch(["accepted"], {"raised": obs["exc"]})
        sp_ = obs.get("scaled_projection")
        if sp_ is not None and (sp_[0] != sp_[2] or sp_[1] != sp_[3]):
            bad.append("err2" if sp_[1] != sp_[3] else "freq")
            det["scaled_projection"] = {"projection of 3*h": {"freq": sp_[0], "err2": sp_[1]}, "3 / 9 times the projection of h": {"freq": sp_[2], "err2": sp_[3]}}
        if action in ("Fill", "FindBin"):
            ret = tuple(args[2])
            exp = None if ret == NO_CELL else ret
            got = obs["ret"]
            try:
                if got is None:
                    gotn = None
                elif np.ndim(got) == 0:
                    g = int(got)
                    gotn = None if (g < 0 or g >= real["h"].bin_count) and real["h"].ndim == 1 else (g,)
                else:
                    gotn = tuple(int(v) for v in got)
            except Exception:
                gotn = ("?",)
            if gotn != exp:
                bad.append("ret")
                det["ret"] = {"expected": exp, "observed": repr(got)}
        rec = post["h"]
        if "null" not in rec:
            h = real.get("h")
            if h is None:
                bad.append("live")
            else:
                if type(h).__name__ != CLS[rec["cls"]]:
                    bad.append("class"); det["class"] = {"expected": CLS[rec["cls"]], "observed": type(h).__name__}
                else:
                    self._cmp(h, rec, bad, det, "h", self._shape(rec["cls"]))
        rd = post["d"]
        if "null" not in rd:
            x = real.get("d")
            if x is None:
                bad.append("live")
            else:
                want = CLS[rd["cls"]]
                if want is not None and type(x).__name__ != want:
                    bad.append("projection_class"); det["projection_class"] = {"expected": want, "observed": type(x).__name__}
                elif want is None and type(x).__name__ not in ("Histogram1D", "Histogram2D", "HistogramND"):
                    bad.append("projection_class"); det["projection_class"] = {"expected": "plain histogram", "observed": type(x).__name__}
                axes = args[0] if action == "Project" else None
                shape = tuple(np.asarray(x.frequencies).shape)
                self._cmp(x, rd, bad, det, "d", shape)
        if bad:
            return Mismatch(sorted(set(bad)), det)
        return None

    def build(self, state):
        out = {}
        rec = state["h"]
        try:
            if "null" not in rec:
                bs = self._binnings(rec["cls"])
                k = self._klass(rec["cls"])
                f = np.zeros(self._shape(rec["cls"]), dtype=np.int64)
                for cell, c in rec["cont"]:
                    f[tuple(cell)] = c
                out["h"] = k(bs[0], f) if len(bs) == 1 else k(bs, f)
            rd = state["d"]
            if "null" not in rd and "h" in out:
                return None
        except EXC:
            return None
        return out

    def _pclass(self, cls, p):
        kinds = []
        if all(c == 0 for c in p):
            kinds.append("origin")
        elif sum(1 for c in p[:2] if c != 0) == 1 and (len(p) == 2 or p[2] == 0):
            kinds.append("axis")
        elif p[0] == 0 and p[1] == 0:
            kinds.append("zaxis")
        elif abs(p[0]) == abs(p[1]):
            kinds.append("diag")
        if len(p) == 3 and p[2] != 0 and p[2] * p[2] == p[0] * p[0] + p[1] * p[1]:
            kinds.append("cone")
        r2 = sum(c * c for c in p)
        if any(r2 == e * e for e in self._re_int):
            kinds.append("on-r-edge")
        quad = ("+" if p[0] >= 0 else "-") + ("+" if p[1] >= 0 else "-") + (("+" if p[2] >= 0 else "-") if len(p) == 3 else "")
        return (",".join(kinds) or "generic") + "/" + quad

    def tag(self, action, args, pre, real=None):
        if action == "Facade":
            return f"Facade/{args[0]}/{'T' if args[2] else 'C'}/{len(args[1])}"
        if action == "NewEmpty":
            return f"NewEmpty/{args[0]}"
        cls = pre["h"]["cls"] if "null" not in pre["h"] else "-"
        if action in ("Fill", "FindBin"):
            return f"{action}/{cls}/{'T' if args[1] else 'C'}/{self._pclass(cls, args[0])}"
        if action == "FillN":
            return f"FillN/{cls}/{'T' if args[1] else 'C'}/{len(args[0])}"
        if action == "WrongDim":
            return f"WrongDim/{cls}/{args[0]}"
        if action == "Project":
            return f"Project/{cls}/{'-'.join(str(a) for a in args[0])}"
        return action

    def describe(self, action, args, pre):
        return {"action": action, "args": repr(args)[:300], "scale": self.scale, "negzero": self.negzero, "nphi": self.nphi,
                "ntheta": self.ntheta, "cls": pre["h"].get("cls") if "null" not in pre["h"] else None}
