"""Known findings: genuine defects of physt that are recorded rather than repaired.

/verif/known_findings.json is read-only at run time.  An entry suppresses a mismatch only
if property, spec, action and condition tag agree and the differing fields are a subset
of the fields listed for it; 'fixed' entries suppress nothing."""
from __future__ import annotations

import fnmatch
import json
import os

PATH = os.path.join(os.path.dirname(os.path.dirname(os.path.abspath(__file__))), "known_findings.json")


def _props(e):
    p = e["property"]
    return p if isinstance(p, list) else [p]


class Findings:
    def __init__(self, path: str = PATH):
        self.entries = []
        if os.path.exists(path):
            with open(path) as f:
                self.entries = json.load(f)["findings"]
        self.hit = {}

    def match(self, prop, spec, action, tag, fields):
        for e in self.entries:
            if e.get("status") != "known":
                continue
            if prop not in _props(e):
                continue
            if e.get("spec") not in (None, spec):
                continue
            acts = e.get("action")
            if acts is not None and action not in (acts if isinstance(acts, list) else [acts]):
                continue
            tags = e["tag"] if isinstance(e["tag"], list) else [e["tag"]]
            if not any(fnmatch.fnmatchcase(tag, t) for t in tags):
                continue
            if "fields" in e and not set(fields) <= set(e["fields"]):
                continue
            self.hit[e["id"]] = self.hit.get(e["id"], 0) + 1
            return e
        return None

    def lines(self, prop):
        out = []
        for e in self.entries:
            if e.get("status") == "known" and prop in _props(e) and self.hit.get(e["id"]):
                out.append(f"KNOWN-FINDING: property={prop} {e['id']}: {e['what']} (hit {self.hit[e['id']]}x)")
        return out
