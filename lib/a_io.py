"""Adapter binding spec/PhystIO.tla to physt's JSON I/O."""
from __future__ import annotations

import json
import math
import os
import tempfile
from typing import Optional

import numpy as np

from .a_pool import EXC, NP_DTYPE
from .embed import PosEmb
from .replay import Adapter, Mismatch
from .tlc import MachineryError

NANV = -99999
GRIDS = {1: (0.5, 0.0), 2: (0.1, 0.05)}
BTYPE = {"static": "StaticBinning", "static_pairs": "StaticBinning", "numpy": "NumpyBinning", "fixed": "FixedWidthBinning",
         "exp": "ExponentialBinning"}
CUSTOM = {0: {}, 1: {"tag": "x"}, 2: {"n": 3, "nested": [1, 2.5, {"a": None}]}, 3: {"flag": True}, 4: {"radius": 2.5},
          5: {"run": 0, "calibrated": False, "comment": "", "scale": 0.0, "tags": [], "extra": {}}}


def same_bits(a, b) -> bool:
    a = np.asarray(a)
    b = np.asarray(b)
    if a.shape != b.shape or a.dtype != b.dtype:
        return False
    return a.tobytes() == b.tobytes() or bool(np.array_equal(a, b, equal_nan=True) and np.array_equal(np.signbit(a), np.signbit(b)))


def norm_json(x):
    """JSON values with NaN made comparable."""
    if isinstance(x, float) and x != x:
        return "NaN"
    if isinstance(x, list):
        return [norm_json(v) for v in x]
    if isinstance(x, dict):
        return {k: norm_json(v) for k, v in x.items()}
    return x


class IOAdapter(Adapter):
    name = "PhystIO"

    def __init__(self, pe: PosEmb, spelling: int = 0, fscale: float = 1.0):
        self.pe, self.spelling, self.fscale = pe, spelling, fscale
        import physt
        from physt import binnings, special_histograms, types
        from physt.io import parse_json, load_json, save_json
        self.physt, self.B, self.S, self.T = physt, binnings, special_histograms, types
        self.parse_json, self.load_json, self.save_json = parse_json, load_json, save_json

    def initial(self, state):
        return {}

    # ---------------------------------------------------------------- gamma
    def _binning(self, d):
        t, e = d["type"], d["edges"]
        if t == "static":
            xs = [self.pe.x(p) for p in e]
            return self.B.StaticBinning(np.array([[xs[i], xs[i + 1]] for i in range(len(xs) - 1)]))
        if t == "static_pairs":
            return self.B.StaticBinning(np.array(self.pe.edges(e)))
        if t == "numpy":
            return self.B.NumpyBinning(np.array([self.pe.x(p) for p in e]))
        if t == "fixed":
            tmin, count, grid = e
            w, s = GRIDS[grid]
            return self.B.FixedWidthBinning(bin_width=w, bin_count=count, bin_times_min=tmin, bin_shift=s, adaptive=d["adaptive"])
        if t == "exp":
            a, w, n = e
            return self.B.ExponentialBinning(log_min=float(a), log_width=float(w), bin_count=int(n))
        raise RuntimeError(t)

    def _val(self, v, dtype):
        if v == NANV:
            return float("nan")
        if dtype.startswith("f"):
            return v * self.fscale
        return v

    def _name(self, n, what):
        return None if n == 0 else f"{what}-ä{n}"

    def _hist(self, o):
        cls = o["cls"]
        bs = [self._binning(b) for b in o["binnings"]]
        shape = tuple(b.bin_count for b in bs)
        dt = NP_DTYPE[o["dtype"]]
        f = np.array([self._val(v, o["dtype"]) for v in o["freq"]]).reshape(shape).astype(dt)
        e = np.array([self._val(v, o["dtype"]) for v in o["err2"]]).reshape(shape).astype(dt)
        kw = dict(CUSTOM[o["custom"]])
        if o["name"]:
            kw["name"] = self._name(o["name"], "name")
        if o["title"]:
            kw["title"] = self._name(o["title"], "title")
        one_d = cls in ("Histogram1D", "RadialHistogram", "AzimuthalHistogram")
        klass = getattr(self.T, cls, None) or getattr(self.S, cls)
        if one_d:
            if o["axes"][0]:
                kw["axis_name"] = f"ax{o['axes'][0]}"
            m = [self._val(v, o["dtype"]) for v in o["missed"]]
            return klass(bs[0], f, e, keep_missed=o["keep"], dtype=dt, underflow=m[0], overflow=m[1], inner_missed=m[2], **kw)
        if any(o["axes"]):
            kw["axis_names"] = [f"ax{a}" if a else f"axis{i}" for i, a in enumerate(o["axes"])]
        return klass(bs, f, errors2=e, keep_missed=o["keep"], dtype=dt, missed=self._val(o["missed"][0], o["dtype"]), **kw)

    def _object(self, o):
        if o["cls"] == "collection":
            return self.T.HistogramCollection(*[self._hist(m) for m in o["members"]])
        return self._hist(o)

    # ---------------------------------------------------------------- calls
    def apply(self, real, action, args, pre):
        obs = {"exc": None, "ret": None}
        o = real
        try:
            if action == "Pick":
                o["h"] = self._object(args[0])
            elif action == "ToJson":
                o["text"] = o["h"].to_json() if self.spelling % 2 == 0 else self.save_json(o["h"])
            elif action == "Parse":
                o["h2"] = self.parse_json(o["text"])
            elif action == "ToJson2":
                o["text2"] = o["h2"].to_json()
            elif action == "SaveLoad":
                fd, path = tempfile.mkstemp(suffix=".json")
                os.close(fd)
                try:
                    o["text"] = o["h"].to_json(path=path)
                    o["h2"] = self.load_json(path)
                    with open(path, encoding="utf-8") as fh:
                        obs["ret"] = fh.read() == o["text"]
                finally:
                    os.unlink(path)
            elif action == "VersionCheck":
                v, accepted = args
                d = json.loads(o["text"])
                d["physt_compatible"] = ".".join(str(x) for x in v)
                try:
                    self.parse_json(json.dumps(d))
                    obs["ret"] = True
                except Exception as ex:      # VersionError derives from Exception
                    obs["ret"] = False
                    obs["why"] = f"{type(ex).__name__}: {ex}"
            else:
                raise RuntimeError("unknown action " + action)
        except EXC as ex:
            if isinstance(ex, RuntimeError) and str(ex).startswith("unknown action"):
                raise
            obs["exc"] = f"{type(ex).__name__}: {ex}"
        return o, obs

    # ---------------------------------------------------------------- compare
    def _cmp_doc(self, d, h, spec, bad, det, key=""):
        def fail(f, exp, got):
            bad.append(f)
            det[key + f] = {"expected": exp, "observed": got}
        if d.get("histogram_type") != spec["histogram_type"]:
            fail("doc.histogram_type", spec["histogram_type"], d.get("histogram_type"))
            return
        bt = [b.get("binning_type") for b in d.get("binnings", [])]
        want = [BTYPE[b["type"]] for b in spec["binnings"]]
        if bt != want:
            fail("doc.binnings", want, bt)
        if norm_json(d.get("frequencies")) != norm_json(np.asarray(h.frequencies).tolist()):
            fail("doc.frequencies", np.asarray(h.frequencies).tolist(), d.get("frequencies"))
        if norm_json(d.get("errors2")) != norm_json(np.asarray(h.errors2).tolist()):
            fail("doc.errors2", np.asarray(h.errors2).tolist(), d.get("errors2"))
        if d.get("dtype") != str(np.dtype(NP_DTYPE[spec["dtype"]])):
            fail("doc.dtype", str(np.dtype(NP_DTYPE[spec["dtype"]])), d.get("dtype"))
        if d.get("missed_keep") != spec["missed_keep"]:
            fail("doc.missed_keep", spec["missed_keep"], d.get("missed_keep"))
        m = d.get("missed")
        if not isinstance(m, list) or len(np.ravel(m)) != len(spec["missed"]):
            fail("doc.missed", list(spec["missed"]), m)
        md = d.get("meta_data", {})
        if md.get("name") != self._name(spec["meta_data"]["name"], "name"):
            fail("doc.name", self._name(spec["meta_data"]["name"], "name"), md.get("name"))
        for k, v in CUSTOM[spec["meta_data"]["custom"]].items():
            if md.get(k) != v:
                fail("doc.custom", {k: v}, md.get(k))

    def _public(self, h):
        one_d = h.ndim == 1 and hasattr(h, "underflow")
        snap = {
            "class": type(h).__name__,
            "binning_types": [type(b).__name__ for b in h.binnings],
            "bins": [np.asarray(b.bins) for b in h.binnings],
            "frequencies": np.asarray(h.frequencies), "errors2": np.asarray(h.errors2),
            "dtype": str(np.dtype(h.dtype)), "array_dtypes": [str(h.frequencies.dtype), str(h.errors2.dtype)],
            "keep_missed": bool(h.keep_missed), "adaptive": [bool(b.is_adaptive()) for b in h.binnings],
            "name": h.name, "title": h.title, "axis_names": tuple(h.axis_names),
            "custom": {k: v for k, v in h.meta_data.items() if k not in ("name", "title", "axis_names")},
        }
        if one_d:
            snap["missed"] = [float(h.underflow), float(h.overflow), float(h.inner_missed)]
        else:
            snap["missed"] = [float(h.missed)]
        return snap

    def _cmp_hist(self, a, b, bad, det, key=""):
        """b (parsed) must reproduce a (original) exactly."""
        sa, sb = self._public(a), self._public(b)
        for k in sa:
            va, vb = sa[k], sb[k]
            if k == "bins":
                ok = len(va) == len(vb) and all(same_bits(x, y) for x, y in zip(va, vb))
            elif k in ("frequencies", "errors2"):
                ok = same_bits(va, vb)
            elif k == "missed":
                ok = len(va) == len(vb) and all((x != x and y != y) or x == y for x, y in zip(va, vb))
            else:
                ok = norm_json(va) == norm_json(vb) if isinstance(va, (dict, list)) else va == vb
            if not ok:
                bad.append(k)
                det[key + k] = {"expected": repr(va)[:300], "observed": repr(vb)[:300]}
        try:
            if not (b == a):
                bad.append("eq")
                det[key + "eq"] = "parsed != original"
        except EXC as ex:
            bad.append("eq")
            det[key + "eq"] = f"{type(ex).__name__}: {ex}"

    def compare(self, real, obs, post, action, args, pre, view) -> Optional[Mismatch]:
        bad, det = [], {}
        if obs["exc"] is not None:
            return Mismatch(["accepted"], {"raised": obs["exc"]})
        if action == "Pick":
            # gamma sanity: the object built has the class the subject names
            want = "HistogramCollection" if args[0]["cls"] == "collection" else args[0]["cls"]
            if type(real["h"]).__name__ != want:
                raise MachineryError(f"gamma built {type(real['h']).__name__} for subject {want}")
        if action in ("ToJson", "SaveLoad"):
            d = json.loads(real["text"])
            spec = post["doc"]
            if spec["histogram_type"] == "histogram_collection":
                hs = d.get("histograms", [])
                if d.get("histogram_type") != "histogram_collection" or len(hs) != len(spec["histograms"]):
                    bad.append("doc.collection")
                else:
                    for i, (dd, ss) in enumerate(zip(hs, spec["histograms"])):
                        self._cmp_doc(dd, real["h"].histograms[i], ss, bad, det, f"[{i}]")
            else:
                self._cmp_doc(d, real["h"], spec, bad, det)
            if "physt_version" not in d or "physt_compatible" not in d:
                bad.append("doc.version")
            if action == "SaveLoad" and obs["ret"] is not True:
                bad.append("file")
        if action in ("Parse", "SaveLoad"):
            a, b = real["h"], real["h2"]
            if type(a) is not type(b):
                bad.append("class")
                det["class"] = {"expected": type(a).__name__, "observed": type(b).__name__}
            elif type(a).__name__ == "HistogramCollection":
                if len(a) != len(b):
                    bad.append("members")
                else:
                    for i, (x, y) in enumerate(zip(a.histograms, b.histograms)):
                        self._cmp_hist(x, y, bad, det, f"[{i}].")
            else:
                self._cmp_hist(a, b, bad, det)
        if action == "ToJson2":
            d1, d2 = norm_json(json.loads(real["text"])), norm_json(json.loads(real["text2"]))
            if d1 != d2:
                diff = [k for k in set(d1) | set(d2) if d1.get(k) != d2.get(k)]
                bad.append("second_document")
                det["second_document"] = {"differing_keys": diff, "first": {k: d1.get(k) for k in diff}, "second": {k: d2.get(k) for k in diff}}
        if action == "VersionCheck":
            v, accepted = args
            if obs["ret"] != accepted:
                bad.append("version")
                det["version"] = {"declared": list(v), "expected_accepted": accepted, "observed": obs["ret"], "why": obs.get("why")}
        if bad:
            return Mismatch(sorted(set(bad)), det)
        return None

    def build(self, state):
        # go on from the specification's state: rebuild what the spec says exists
        out = {}
        try:
            if "null" not in state["obj"]:
                out["h"] = self._object(state["obj"])
            if "null" not in state["doc"]:
                out["text"] = out["h"].to_json()
            if "null" not in state["obj2"]:
                out["h2"] = self._object(state["obj2"])
            if "null" not in state["doc2"]:
                out["text2"] = out["text"]
        except EXC:
            return None
        return out

    def _kind(self, o):
        if "null" in o:
            return "-"
        if o["cls"] == "collection":
            return "collection"
        return o["cls"] + "/" + "+".join(b["type"] + ("A" if b["adaptive"] else "") for b in o["binnings"]) + "/" + o["dtype"] + \
            ("/keep" if o["keep"] else "/nokeep") + ("/nan" if NANV in o["missed"] else "") + \
            ("/missed" if any(m not in (0, NANV) for m in o["missed"]) else "")

    def tag(self, action, args, pre, real=None):
        if action == "Pick":
            return "Pick/" + self._kind(args[0])
        if action == "VersionCheck":
            return f"VersionCheck/{'.'.join(str(x) for x in args[0])}"
        return f"{action}/" + self._kind(pre["obj"])

    def describe(self, action, args, pre):
        d = {"action": action, "args": repr(args)[:300], "embedding": self.pe.name, "subject": self._kind(pre["obj"]) if "obj" in pre else None}
        return d
