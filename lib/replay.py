"""Engine R: lockstep replay of TLC's labelled state graph into the real code.

The graph is walked depth-first from the initial states.  The real object reached by
real API calls is cloned (copy.deepcopy, independent of physt's own copy) before
every outgoing transition, the transition's call is executed on the clone, and the
result is compared with the specification's successor state(s) for that label through
the adapter.  A (state, label) pair with several successors is a nondeterministic
spec step: the code must match one of them (refinement).
"""
from __future__ import annotations

import copy
import json
import os
import random
import time
import warnings
from dataclasses import dataclass, field
from typing import Any, Dict, List, Optional, Tuple

from .tlc import Graph


class Mismatch:
    def __init__(self, fields: List[str], detail: Dict[str, Any]):
        self.fields = fields
        self.detail = detail


@dataclass
class ReplayStats:
    edges_total: int = 0
    edges_replayed: int = 0
    states_reached: int = 0
    states_total: int = 0
    per_action: Dict[str, int] = field(default_factory=dict)
    tags: Dict[str, int] = field(default_factory=dict)
    known_hits: Dict[str, int] = field(default_factory=dict)
    violations: List[dict] = field(default_factory=list)
    samples: List[dict] = field(default_factory=list)
    skipped_unreached: int = 0
    violation_classes: Dict[tuple, int] = field(default_factory=dict)
    wall_s: float = 0.0


class Adapter:
    """Binding between one specification and the real code (overridden per spec)."""

    name = "adapter"

    def initial(self, state: dict):
        """Real object for an initial spec state."""
        return None

    def apply(self, real, action: str, args: tuple, pre: dict):
        """Execute the call; returns (real_after, observation dict)."""
        raise NotImplementedError

    def compare(self, real, obs: dict, post: dict, action: str, args: tuple, pre: dict, view) -> Optional[Mismatch]:
        raise NotImplementedError

    def tag(self, action: str, args: tuple, pre: dict, real=None) -> str:
        return action

    def build(self, state: dict):
        """gamma: a real object for a spec state (used to go on after a known finding)."""
        return None

    def describe(self, action: str, args: tuple, pre: dict) -> dict:
        return {"action": action, "args": repr(args)}

    def clone(self, real):
        return copy.deepcopy(real)


def replay_graph(
    g: Graph,
    adapter: Adapter,
    view,
    findings,
    prop: str,
    *,
    edge_budget: Optional[int] = None,
    seed: int = 0,
    actions: Optional[set] = None,
    first_actions: Optional[set] = None,
    rebuild_from_history: bool = False,
    max_violations: int = 40,
    sample_every: int = 0,
) -> ReplayStats:
    """Replay every transition (or a budgeted sample) of `g` through `adapter`.

    actions: if given, only transitions with these action names are *compared*; all
    transitions are still executed to reach states.
    first_actions: if given, only behaviours whose first transition is one of these actions are walked.
    rebuild_from_history: the real objects of a state are not deep-copied at branch points but rebuilt by re-executing the
    calls that led there.  Deep copies cut every sharing between objects (a numpy view of another object's array becomes
    an array of its own), so only re-execution can show that a derived object still aliases its source (C12).
    """
    st = ReplayStats(edges_total=g.n_edges, states_total=len(g.nodes))
    rng = random.Random(seed)
    t0 = time.time()
    visited = set()
    # decide which edges get replayed when over budget: spanning tree edges always, others sampled
    keep_prob = 1.0
    if edge_budget and g.n_edges > edge_budget:
        keep_prob = max(0.0, (edge_budget - len(g.nodes)) / max(1, g.n_edges - len(g.nodes)))
    warnings.simplefilter("ignore")
    for init in g.init:
        real0 = adapter.initial(g.nodes[init])
        visited.add(init)
        stack: List[Tuple[int, Any, Any]] = [(init, real0, [] if rebuild_from_history else None)]

        def rebuild(hist):
            r = adapter.initial(g.nodes[init])
            for (a_, args_, pre_) in hist:
                r, _o = adapter.apply(r, a_, args_, pre_)
            return r
        while stack:
            sid, real, hist = stack.pop()
            st.states_reached += 1
            pre = g.nodes[sid]
            groups: Dict[tuple, List[int]] = {}
            for lab, dst in g.out.get(sid, ()):
                if first_actions is not None and sid == init and lab[0] not in first_actions:
                    continue
                groups.setdefault(lab, []).append(dst)
            for lab, dsts in groups.items():
                need = [d for d in dsts if d not in visited]
                if not need and keep_prob < 1.0 and rng.random() > keep_prob:
                    continue
                action, args = lab
                st.edges_replayed += 1
                st.per_action[action] = st.per_action.get(action, 0) + 1
                r2 = rebuild(hist) if hist is not None else adapter.clone(real)
                tag = adapter.tag(action, args, pre, r2)
                st.tags[tag] = st.tags.get(tag, 0) + 1
                try:
                    r2, obs = adapter.apply(r2, action, args, pre)
                except Exception as ex:  # harness failure, not an implementation refusal
                    raise
                best: Optional[Mismatch] = None
                matched = None
                for d in dsts:
                    if actions is not None and action not in actions:
                        mm = None
                    else:
                        mm = adapter.compare(r2, obs, g.nodes[d], action, args, pre, view)
                    if mm is None:
                        matched = d
                        break
                    if best is None or len(mm.fields) < len(best.fields):
                        best = mm
                if matched is not None:
                    if sample_every and st.edges_replayed % sample_every == 1 and len(st.samples) < 8:
                        st.samples.append(adapter.describe(action, args, pre))
                    if matched not in visited:
                        visited.add(matched)
                        stack.append((matched, r2 if hist is None else None, None if hist is None else hist + [(action, args, pre)]))
                    continue
                # mismatch
                assert best is not None
                kf = findings.match(prop, adapter.name, action, tag, best.fields)
                rec = {
                    "property": prop, "spec": adapter.name, "action": action, "tag": tag,
                    "fields": best.fields, "detail": best.detail,
                    "call": adapter.describe(action, args, pre),
                }
                if kf is not None:
                    st.known_hits[kf["id"]] = st.known_hits.get(kf["id"], 0) + 1
                else:
                    key = (action, tag, tuple(best.fields))
                    seen = st.violation_classes.get(key, 0)
                    st.violation_classes[key] = seen + 1
                    if seen == 0 and len(st.violations) < max_violations:
                        st.violations.append(rec)
                # go on from the specification's state if the adapter can build it
                for d in dsts:
                    if d not in visited:
                        rb = adapter.build(g.nodes[d])
                        if rb is not None:
                            visited.add(d)
                            stack.append((d, rb, None))
                        else:
                            st.skipped_unreached += 1
    st.wall_s = time.time() - t0
    return st
