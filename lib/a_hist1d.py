"""Adapter binding spec/Hist1D.tla to physt.h1 / Histogram1D."""
from __future__ import annotations

from fractions import Fraction
from typing import Optional

import numpy as np

from .embed import NAN, NEGINF, POSINF, UNKNOWN, InputGuard, PosEmb, WEmb, feq, isnan
from .replay import Adapter, Mismatch

NONE_RET = -7


def consecutive(bins) -> bool:
    return all(bins[i][1] == bins[i + 1][0] for i in range(len(bins) - 1))


def pos_class(bins, p) -> str:
    if p == NAN:
        return "nan"
    if p < bins[0][0]:
        return "below"
    if p > bins[-1][1]:
        return "above"
    if p == bins[-1][1]:
        return "lastedge"
    for (l, r) in bins:
        if l <= p < r:
            return "edge" if p == l else "in"
    return "gap"


def stats_expect(st, pe: PosEmb, we: WEmb):
    """Expected float statistics from the spec's integer moments (affine embeddings only)."""
    a, b = pe.affine
    k = Fraction(we.num, we.den)
    w = st["w"] * k
    s1 = (a * st["s1"] + b * st["w"]) * k
    s2 = (a * a * st["s2"] + 2 * a * b * st["s1"] + b * b * st["w"]) * k
    return {"weight": w, "sum": s1, "sum2": s2}


class Hist1DAdapter(Adapter):
    name = "Hist1D"
    STATS_EXACT = {"dyadic", "int", "neg"}

    def __init__(self, pe: PosEmb, we: WEmb, spelling: int = 0):
        self.pe, self.we, self.spelling = pe, we, spelling
        import physt
        from physt.binnings import StaticBinning, NumpyBinning
        from physt.types import Histogram1D
        self.physt = physt
        self.StaticBinning, self.NumpyBinning, self.Histogram1D = StaticBinning, NumpyBinning, Histogram1D

    # ---------------------------------------------------------------- gamma
    def _bins_arg(self, L, allow_object=True):
        pairs = self.pe.edges(L)
        sp = self.spelling % 3
        if sp == 0:
            if consecutive(L):
                return np.array([pairs[0][0]] + [p[1] for p in pairs])
            return np.array(pairs)
        if sp == 1:
            return np.array(pairs)
        if allow_object:
            if not consecutive(L) and self.spelling % 2 == 0:
                # a derived binning object: the gaps are closed by extra bins, the parent is used (its consecutiveness and its
                # edges are evaluated and cached), and the bins wanted are selected from it again
                full, keep = [], []
                for i, (l, r) in enumerate(L):
                    if i and L[i - 1][1] != l:
                        full.append((L[i - 1][1], l))
                    keep.append(len(full))
                    full.append((l, r))
                parent = self.StaticBinning(np.array(self.pe.edges(full)))
                assert parent.is_consecutive() and len(parent.numpy_bins) == len(full) + 1
                if keep == list(range(0, len(full), 2)):
                    return parent[::2]
                return parent[keep]
            return self.StaticBinning(np.array(pairs))
        return np.array(pairs)

    def _values(self, batch):
        return [self.pe.x(e[0]) for e in batch]

    def _weights(self, batch, weighted):
        if not weighted and self.we.den == 1 and self.we.num == 1:
            return None
        return self.we.arr([e[1] for e in batch])

    def _container(self, vals):
        sp = self.spelling % 4
        if sp == 0:
            return np.array(vals, dtype=float)
        if sp == 1:
            return list(vals)
        if sp == 2:
            return tuple(vals)
        return np.array(vals, dtype=float).reshape(1, -1) if len(vals) else np.array(vals, dtype=float)

    def apply(self, real, action, args, pre):
        obs = {"exc": None, "ret": None}
        guard = InputGuard()
        try:
            if action == "NewEmpty":
                L, keep = args
                if self.spelling % 4 == 2:
                    # an empty histogram obtained as the emptied copy of a filled one over the same bins
                    tmpl = self.physt.h1([self.pe.x(L[0][0]), self.pe.x(L[-1][0])], self._bins_arg(L), keep_missed=keep)
                    real = tmpl.copy(include_frequencies=False)
                elif self.spelling % 2 == 0:
                    real = self.Histogram1D(self._bins_arg(L), keep_missed=keep)
                else:
                    real = self.physt.h1(None, self._bins_arg(L), keep_missed=keep)
            elif action == "Construct":
                L, keep, batch, weighted = args
                vals = self._values(batch)
                w = self._weights(batch, weighted)
                cont = self._container(vals)
                kw = {}
                if w is not None and isinstance(cont, np.ndarray) and cont.ndim == 2:
                    w = np.asarray(w).reshape(cont.shape)
                if self.spelling % 4 == 3 and len(vals) >= 2:
                    # "any shape": a 2-D view that is not C-contiguous; without NaN also through dropna=False, where values and
                    # weights are flattened by separate routines.  Weighted batches are doubled by the same values with weight 0
                    # (they add nothing), so that even two entries give a (2, 2) view whose memory order is not its C order
                    v2, w2 = list(vals), (None if w is None else [x for x in np.asarray(w).ravel().tolist()])
                    if w2 is not None:
                        v2, w2 = v2 + v2, w2 + [0 * x for x in w2]
                    if len(v2) % 2 == 0 and len(v2) >= 4:
                        cont = np.array(v2, dtype=float).reshape(-1, 2).T
                        if w2 is not None:
                            w = np.ascontiguousarray(np.asarray(w2, dtype=np.asarray(w).dtype).reshape(-1, 2).T)
                        if not any(v != v for v in v2):
                            kw["dropna"] = False
                real = self.physt.h1(guard.track(cont), self._bins_arg(L), weights=guard.track(w), keep_missed=keep, **kw)
            elif action == "Fill":
                p, w, r = args
                x = self.pe.x(p)
                if w == 1 and self.we.den == 1 and self.we.num == 1 and self.we.kind == "pyint":
                    if self.spelling % 4 == 3:
                        real << x                      # the operator alias of fill (it returns nothing)
                        obs["ret"] = real.find_bin(x)
                    elif self.spelling % 2 == 1:
                        obs["ret"] = real.fill(x)
                    else:
                        obs["ret"] = real.fill(x, 1)
                else:
                    obs["ret"] = real.fill(x, self.we.w(w))
            elif action == "FillN":
                batch, weighted = args
                vals = self._values(batch)
                w = self._weights(batch, weighted)
                obs["ret"] = real.fill_n(guard.track(self._container(vals) if self.spelling % 4 != 3 else np.array(vals, dtype=float)), weights=guard.track(w))
            elif action == "FindBin":
                p, r = args
                obs["ret"] = real.find_bin(self.pe.x(p))
            else:
                raise RuntimeError("unknown action " + action)
        except (ValueError, TypeError, IndexError, KeyError, RuntimeError, AttributeError, ZeroDivisionError, OverflowError, NotImplementedError, AssertionError) as ex:
            if isinstance(ex, RuntimeError) and str(ex).startswith("unknown action"):
                raise
            obs["exc"] = f"{type(ex).__name__}: {ex}"
        obs["inputs_changed"] = guard.changed()
        return real, obs

    def build(self, state):
        h = state["h"]
        if "null" in h:
            return None
        from physt.statistics import Statistics, INVALID_STATISTICS
        L = h["bins"]
        freq = [float(self.we.val(v)) for v in h["freq"]]
        err2 = [float(self.we.val2(v)) for v in h["err2"]]
        isfloat = h["weighted"] and self.we.is_float or self.we.den != 1
        dtype = np.float64 if isfloat or (not consecutive(L)) else np.int64
        def mv(v):
            return np.nan if v == UNKNOWN else float(self.we.val(v))
        stats = None
        if h["allIn"] and self.pe.affine is not None:
            e = stats_expect(h["st"], self.pe, self.we)
            st = h["st"]
            stats = Statistics(sum=float(e["sum"]), sum2=float(e["sum2"]), weight=float(e["weight"]),
                               min=self.pe.x(st["mn"]) if st["mn"] != POSINF else np.inf,
                               max=self.pe.x(st["mx"]) if st["mx"] != NEGINF else -np.inf,
                               median=(self._true_median(state["ghost"]) if h["med"] else np.nan))
        try:
            return self.Histogram1D(
                self.StaticBinning(np.array(self.pe.edges(L))), np.array(freq, dtype=dtype), np.array(err2, dtype=dtype),
                keep_missed=h["keep"], underflow=mv(h["under"]) if h["keep"] else 0, overflow=mv(h["over"]) if h["keep"] else 0,
                stats=stats, dtype=dtype)
        except Exception:
            return None

    # ---------------------------------------------------------------- alpha / compare
    def compare(self, real, obs, post, action, args, pre, view) -> Optional[Mismatch]:
        bad, det = [], {}
        h = post["h"]
        if obs["exc"] is not None:
            return Mismatch(["accepted"], {"raised": obs["exc"]})
        if obs.get("inputs_changed"):
            bad.append("inputs"); det["inputs"] = obs["inputs_changed"][:2]      # the caller's arrays were overwritten
        if action in ("Fill", "FindBin") and "ret" in view:
            p, r = args[0], args[-1]
            exp = None if r == NONE_RET else r
            got = obs["ret"]
            if not (got is None and exp is None) and not (got is not None and exp is not None and int(got) == exp and not isinstance(got, bool)):
                bad.append("ret"); det["ret"] = {"expected": exp, "observed": repr(got)}
        if real is None:
            return Mismatch(["accepted"], {"raised": "no object"})
        L = h["bins"]
        if "bins" in view:
            exp = np.array(self.pe.edges(L))
            got = np.asarray(real.bins)
            if got.shape != exp.shape or not np.array_equal(got, exp):
                bad.append("bins"); det["bins"] = {"expected": exp.tolist(), "observed": got.tolist()}
        n = len(L)
        if "freq" in view:
            got = np.asarray(real.frequencies)
            if got.shape != (n,) or not all(feq(got[i], self.we.val(h["freq"][i])) for i in range(n)):
                bad.append("freq"); det["freq"] = {"expected": [str(self.we.val(v)) for v in h["freq"]], "observed": got.tolist()}
        if "err2" in view:
            got = np.asarray(real.errors2)
            if got.shape != (n,) or not all(feq(got[i], self.we.val2(h["err2"][i])) for i in range(n)):
                bad.append("err2"); det["err2"] = {"expected": [str(self.we.val2(v)) for v in h["err2"]], "observed": got.tolist()}
        for fld, attr in (("under", "underflow"), ("over", "overflow")):
            if fld not in view:
                continue
            got = getattr(real, attr)
            sv = h[fld]
            if sv == UNKNOWN:
                ok = isnan(got)
            elif consecutive(L):
                ok = feq(got, self.we.val(sv))
            else:
                ok = isnan(got) or feq(got, self.we.val(sv))
            if not ok:
                bad.append(fld); det[fld] = {"expected": "nan" if sv == UNKNOWN else str(self.we.val(sv)), "observed": repr(got)}
        if "total" in view:
            if not feq(real.total, self.we.val(sum(h["freq"]))):
                bad.append("total"); det["total"] = {"expected": str(self.we.val(sum(h["freq"]))), "observed": repr(real.total)}
        if "stats" in view and h["allIn"] and self.pe.name in self.STATS_EXACT:
            st = real.statistics
            e = stats_expect(h["st"], self.pe, self.we)
            sst = h["st"]
            okk = feq(st.weight, e["weight"]) and feq(st.sum, e["sum"]) and feq(st.sum2, e["sum2"])
            if sst["mn"] == POSINF:
                okk = okk and st.min == np.inf and st.max == -np.inf
            else:
                okk = okk and st.min == self.pe.x(sst["mn"]) and st.max == self.pe.x(sst["mx"])
            if okk:
                # derived moments: mean exact (one division), variance within 4 eps of the scale
                if e["weight"] > 0:
                    mean = e["sum"] / e["weight"]
                    okk = okk and feq(st.mean(), Fraction(float(mean))) if float(mean) == float(e["sum"]) / float(e["weight"]) else okk
                    var = (e["sum2"] - e["sum"] ** 2 / e["weight"]) / e["weight"]
                    tol = 4 * 2.3e-16 * max(float(e["sum2"]), float(e["sum"]) ** 2 / float(e["weight"])) / float(e["weight"])
                    okk = okk and abs(float(st.variance()) - float(var)) <= tol
                else:
                    okk = okk and isnan(st.mean())
            if not okk:
                bad.append("stats"); det["stats"] = {"expected": {k: str(v) for k, v in e.items()} | {"mn": sst["mn"], "mx": sst["mx"]}, "observed": repr(st)}
        if "median" in view and h["allIn"] and self.we.den == 1 and self.we.num == 1:
            med = real.statistics.median
            true = self._true_median(post["ghost"])
            if h["med"]:
                ok = true is not None and med == true
            else:
                ok = isnan(med) or (true is not None and med == true)
            if not ok:
                bad.append("median"); det["median"] = {"expected": true, "obliged": h["med"], "observed": repr(med)}
        if bad:
            return Mismatch(bad, det)
        return None

    def _true_median(self, ghost):
        vals = []
        ws = set()
        for (p, w, k) in ghost:
            if p == NAN:
                continue
            ws.add(w)
            vals += [self.pe.x(p)] * k
        if len(ws) > 1:
            return None     # unequal weights: no median is defined by the statement
        if not vals:
            return None
        return float(np.median(np.array(vals)))

    def tag(self, action, args, pre, real=None):
        kind = ""
        if real is not None:
            try:
                kind = "/" + real.dtype.kind
            except Exception:
                pass
        if action == "NewEmpty":
            L, keep = args
            return f"NewEmpty/{self._lkind(L)}/{'keep' if keep else 'nokeep'}"
        if action == "Construct":
            L, keep, batch, weighted = args
            cls = sorted({pos_class(L, e[0]) for e in batch})
            return f"Construct/{self._lkind(L)}/{'keep' if keep else 'nokeep'}/{self._wkind(weighted)}/{'+'.join(cls) or 'empty'}"
        h = pre["h"]
        L, keep = h["bins"], h["keep"]
        base = f"{self._lkind(L)}/{'keep' if keep else 'nokeep'}{kind}"
        if action == "Fill":
            return f"Fill/{pos_class(L, args[0])}/{base}/{'w1' if args[1] == 1 else 'w'}"
        if action == "FindBin":
            return f"FindBin/{pos_class(L, args[0])}/{base}"
        if action == "FillN":
            batch, weighted = args
            cls = sorted({pos_class(L, e[0]) for e in batch})
            return f"FillN/{'+'.join(cls) or 'empty'}/{base}/{self._wkind(weighted)}"
        return action

    def _lkind(self, L):
        if consecutive(L):
            return "consec"
        e = np.array(self.pe.edges(L))
        # physt's is_consecutive uses numpy.allclose (atol 1e-8, rtol 1e-5): gaps below that are not seen
        if np.allclose(e[1:, 0], e[:-1, 1], 1.0e-5, 1.0e-8):
            return "gapped-subtol"
        return "gapped"

    def _wkind(self, weighted):
        if not weighted and self.we.den == 1 and self.we.num == 1:
            return "int-u"
        return "float-w" if self.we.is_float else "int-w"

    def describe(self, action, args, pre):
        d = {"action": action, "args": repr(args), "embedding": self.pe.name, "weights": self.we.name, "spelling": self.spelling}
        if action in ("Fill", "FindBin"):
            d["value"] = repr(self.pe.x(args[0]))
        if action in ("Construct",):
            d["bins"] = self.pe.edges(args[0]); d["values"] = [repr(v) for v in self._values(args[2])]
        if action in ("FillN",):
            d["values"] = [repr(v) for v in self._values(args[0])]
        h = pre.get("h")
        if h is not None and "null" not in h:
            d["pre"] = {"bins": self.pe.edges(h["bins"]), "freq": list(h["freq"]), "keep": h["keep"]}
        return d
