"""Embeddings of the abstract lattice into floats (gamma side of DESIGN.md 3.3).

A position embedding is a strictly monotone map from lattice integers to finite floats
(NaN sentinel -> float nan).  Because binning depends only on the order of values and
edges, every embedding must give the same abstract behaviour.  A weight embedding maps
the specification's integer weights to the numbers handed to physt; contents then equal
spec_value * num/den exactly (dyadic)."""
from __future__ import annotations

import math
from fractions import Fraction

import numpy as np

NAN = 99999
UNKNOWN = -99999
POSINF = 88888
NEGINF = -88888


class PosEmb:
    def __init__(self, name, fn, affine=None):
        self.name = name
        self.fn = fn
        self.affine = affine  # (a, b) as Fractions when x = a*p + b exactly in floats
        self._cache = {}

    def x(self, p: int) -> float:
        if p == NAN:
            return float("nan")
        v = self._cache.get(p)
        if v is None:
            v = self._cache[p] = float(self.fn(p))
        return v

    def edges(self, bins):
        return [[self.x(l), self.x(r)] for (l, r) in bins]


def _ulp(p: int) -> float:
    # even lattice points are "edges" (p/2); odd points hug a neighbouring edge by one ulp
    if p % 2 == 0:
        return p / 2
    if (p // 2) % 2 == 0:
        return math.nextafter((p - 1) / 2, math.inf)
    return math.nextafter((p + 1) / 2, -math.inf)


POS = {
    "dyadic": PosEmb("dyadic", lambda p: p / 2, (Fraction(1, 2), Fraction(0))),
    "int": PosEmb("int", lambda p: float(p), (Fraction(1), Fraction(0))),
    "decimal": PosEmb("decimal", lambda p: round(p * 0.1, 10)),
    "ulp": PosEmb("ulp", _ulp),
    "huge": PosEmb("huge", lambda p: math.ldexp(float(p), 900)),
    "tiny": PosEmb("tiny", lambda p: math.ldexp(float(p), -900)),
    "offset": PosEmb("offset", lambda p: 2.0 ** 40 + p, (Fraction(1), Fraction(2 ** 40))),
    "neg": PosEmb("neg", lambda p: (p - 20) * 0.25, (Fraction(1, 4), Fraction(-5))),
}


class WEmb:
    """Weight embedding: spec weight w -> number w*num/den of the given numeric type."""

    def __init__(self, name, num, den, kind):
        self.name, self.num, self.den, self.kind = name, num, den, kind
        self.is_float = kind.startswith("float") or den != 1

    def w(self, w: int):
        v = Fraction(w * self.num, self.den)
        if self.kind == "pyint":
            return int(v)
        if self.kind == "pyfloat":
            return float(v)
        return np.dtype(self.kind).type(float(v) if "float" in self.kind else int(v))

    def arr(self, ws):
        if self.kind == "pyint":
            return [int(Fraction(w * self.num, self.den)) for w in ws]
        if self.kind == "pyfloat":
            return [float(Fraction(w * self.num, self.den)) for w in ws]
        return np.array([float(Fraction(w * self.num, self.den)) for w in ws]).astype(self.kind)

    def val(self, spec_value: int) -> Fraction:
        return Fraction(spec_value * self.num, self.den)

    def val2(self, spec_value: int) -> Fraction:
        return Fraction(spec_value * self.num * self.num, self.den * self.den)


WTS = {
    "int": WEmb("int", 1, 1, "pyint"),
    "half": WEmb("half", 1, 2, "pyfloat"),
    "quarter32": WEmb("quarter32", 1, 4, "float32"),
    "npint": WEmb("npint", 1, 1, "int64"),
    "float1": WEmb("float1", 1, 1, "pyfloat"),
    "int16": WEmb("int16", 1, 1, "int16"),
    # contents that fit a narrow integer type cell by cell while their sums along an axis do not
    "narrow16": WEmb("narrow16", 1200, 1, "int16"),
    "narrow32": WEmb("narrow32", 80000000, 1, "int32"),
}


def feq(observed, expected: Fraction) -> bool:
    """Exact comparison of an observed number with a rational expectation."""
    try:
        o = float(observed)
    except Exception:
        return False
    if o != o or o in (math.inf, -math.inf):
        return False
    return Fraction(o) == expected


def isnan(v) -> bool:
    try:
        return bool(v != v)
    except Exception:
        return False


class InputGuard:
    """Arguments handed to physt must come back unchanged (arrays are kept by reference and compared with a private copy)."""

    def __init__(self):
        self._kept = []

    def track(self, a):
        if isinstance(a, np.ndarray):
            self._kept.append((a, a.copy()))
        return a

    def changed(self):
        out = []
        for a, c in self._kept:
            same = a.shape == c.shape and (np.array_equal(a, c, equal_nan=True) if a.dtype.kind == "f" else np.array_equal(a, c))
            if not same:
                out.append({"before": c.tolist(), "after": a.tolist()})
        return out
