"""Adapter binding spec/PhystCollection.tla to physt.histogram_collection.HistogramCollection."""
from __future__ import annotations

from typing import Optional

import numpy as np

from .a_pool import EXC, PoolAdapter
from .replay import Mismatch

REFUSED = {"FromMembersRefused", "AddRefused", "GetByNameRefused"}
MCL = ((2, 4), (4, 6), (6, 8))
MCLOTHER = ((2, 4), (4, 8))


class CollectionAdapter(PoolAdapter):
    name = "PhystCollection"

    def __init__(self, pe, spelling=0, layout=MCL, other=MCLOTHER):
        super().__init__(pe, spelling)
        self.L, self.LO = layout, other
        from physt.histogram_collection import HistogramCollection
        self.HC = HistogramCollection

    def initial(self, state):
        return {}

    # ---------------------------------------------------------------- gamma
    def _edges(self, L):
        pairs = np.array(self.pe.edges(L))
        return np.array([pairs[0][0]] + [p[1] for p in pairs])

    def _data(self, sd):
        vals = np.array([self.pe.x(e[0]) for e in sd["batch"]], dtype=float)
        w = None
        if sd["weighted"]:
            w = np.array([e[1] for e in sd["batch"]], dtype=np.int64) if sd["den"] == 1 else np.array([e[1] / sd["den"] for e in sd["batch"]], dtype=float)
        return vals, w

    def _member(self, sd, L=None):
        vals, w = self._data(sd)
        return self.physt.h1(vals, self._edges(L or self.L), weights=w, name=f"n{sd['name']}" if sd["name"] else None)

    def apply(self, real, action, args, pre):
        obs = {"exc": None, "ret": None}
        o = real
        try:
            if action == "NewColl":
                if self.spelling % 2:
                    # a binning object of the class the members get from h1(values, edges); binnings of different classes
                    # over the same bins do not compare equal in physt, so a NumpyBinning here would refuse every member
                    from physt.binnings import StaticBinning
                    o["c"] = self.HC(binning=StaticBinning(np.array(self.pe.edges(self.L))))
                else:
                    o["c"] = self.HC(binning=self._edges(self.L))
            elif action == "FromMembers":
                a, b = args
                o["c"] = self.HC(self._member(a), self._member(b))
            elif action == "FromMembersRefused":
                (a,) = args
                obs["ret"] = self.HC(self._member(a), self._member(a, self.LO))
            elif action == "Create":
                (sd,) = args
                vals, w = self._data(sd)
                name = f"n{sd['name']}" if sd["name"] else None
                obs["ret"] = o["c"].create(name, vals if self.spelling % 2 else list(vals), weights=w)
            elif action == "AddMember":
                (sd,) = args
                o["c"].add(self._member(sd))
            elif action == "AddRefused":
                (sd,) = args
                obs["ret"] = o["c"].add(self._member(sd, self.LO))
            elif action == "GetByName":
                n, ix = args
                h = o["c"][f"n{n}" if n else None] if n else None
                if n == 0:
                    # a member without a name is not addressable by name: the statement leaves c[None] open; address it by index
                    h = o["c"][int(ix) - 1]
                obs["ret"] = [i for i, m in enumerate(o["c"].histograms) if m is h]
                obs["contains"] = (f"n{n}" in o["c"]) if n else None
            elif action == "GetByNameRefused":
                (n,) = args
                obs["contains"] = (f"n{n}" if n else "no-such-name") in o["c"]
                obs["ret"] = o["c"][f"n{n}" if n else "no-such-name"]
            elif action == "Sum":
                o["s"] = o["c"].sum()
            elif action == "FillSum":
                (p,) = args
                o["s"].fill(self.pe.x(p))
            elif action == "CopyColl":
                o["d"] = o["c"].copy()
            elif action == "JsonRoundTrip":
                from physt.io import parse_json
                o["d"] = parse_json(o["c"].to_json())
            elif action == "FillMember":
                which, i, p, w = args
                o[which][int(i) - 1].fill(self.pe.x(p), int(w))
            elif action in ("NormalizeAll", "NormalizeBins"):
                (inplace,) = args
                f = o["c"].normalize_all if action == "NormalizeAll" else o["c"].normalize_bins
                r = f(inplace=inplace)
                if inplace:
                    if r is not o["c"]:
                        obs["not_inplace"] = True
                else:
                    o["d"] = r
            elif action == "Eq":
                obs["ret"] = bool(o["c"] == o["d"])
            elif action == "DropD":
                del o["d"]
            elif action == "DropS":
                del o["s"]
            else:
                raise RuntimeError("unknown action " + action)
        except EXC as ex:
            if isinstance(ex, RuntimeError) and str(ex).startswith("unknown action"):
                raise
            obs["exc"] = f"{type(ex).__name__}: {ex}"
        return o, obs

    # -------------------------------------------------------------- compare
    def compare(self, real, obs, post, action, args, pre, view) -> Optional[Mismatch]:
        bad, det = [], {}
        if action in REFUSED:
            if obs["exc"] is None:
                bad.append("refused"); det["refused"] = {"expected": "an exception", "observed": repr(obs["ret"])}
            if action == "GetByNameRefused" and obs.get("contains"):
                bad.append("contains"); det["contains"] = {"expected": False, "observed": True}
        elif obs["exc"] is not None:
            return Mismatch(["accepted"], {"raised": obs["exc"]})
        if obs.get("not_inplace"):
            bad.append("inplace"); det["inplace"] = "inplace=True returned another collection"
        if action == "GetByName":
            n, ix = args
            if obs["ret"] != [int(ix) - 1]:
                bad.append("ret"); det["ret"] = {"expected": int(ix) - 1, "observed": obs["ret"]}
            if n and obs["contains"] is not True:
                bad.append("contains"); det["contains"] = {"expected": True, "observed": obs["contains"]}
        if action == "Eq" and obs["exc"] is None:
            if obs["ret"] != bool(args[0]):
                bad.append("eq"); det["eq"] = {"expected": bool(args[0]), "observed": obs["ret"]}
        # presence of the three objects
        for key, flag in (("c", post["hc"]), ("d", post["hd"]), ("s", "null" not in post["s"])):
            if (key in real) != bool(flag):
                bad.append("live"); det[f"live.{key}"] = {"expected": bool(flag), "observed": key in real}
        for key in ("c", "d"):
            if key in real and post["h" + key]:
                coll = real[key]
                ms = post[key]
                if len(coll) != len(ms):
                    bad.append("members"); det[f"{key}.members"] = {"expected": len(ms), "observed": len(coll)}
                    continue
                if len(ms) and not all(m.binning == coll.binning for m in coll.histograms):
                    bad.append("shared_binning"); det[f"{key}.shared_binning"] = "a member's binning differs from the collection's"
                for i, rec in enumerate(ms):
                    self.compare_member(coll[i], rec, view, bad, det, f"{key}[{i}]")
        if "s" in real and "null" not in post["s"]:
            self.compare_member(real["s"], post["s"], view - {"name"}, bad, det, "s")
        return Mismatch(sorted(set(bad)), det) if bad else None

    def build(self, state):
        return None

    def tag(self, action, args, pre, real=None):
        def shape(k):
            return f"{k}{len(pre[k])}" if pre["h" + k] else f"{k}-"

        def sk(sd):
            return f"{'w' if sd['weighted'] else 'u'}{sd['den']}n{sd['name']}"
        base = f"{shape('c')}{shape('d')}{'s' if 'null' not in pre['s'] else ''}"
        if action in ("FromMembers",):
            return f"{action}/{sk(args[0])}/{sk(args[1])}"
        if action in ("Create", "AddMember", "AddRefused", "FromMembersRefused"):
            return f"{action}/{sk(args[0])}/{base}"
        if action == "FillMember":
            which, i, p, w = args
            m = pre[which][int(i) - 1]
            return f"FillMember/{which}{i}/{m['dtype']}{'d' if m['den'] != 1 else ''}/p{p}/w{w}/{base}"
        if action in ("NormalizeAll", "NormalizeBins"):
            kinds = "".join(sorted({m["dtype"] + ("d" if m["den"] != 1 else "") for m in pre["c"]}))
            return f"{action}/{'inplace' if args[0] else 'copy'}/{kinds}/{base}"
        if action in ("GetByName", "GetByNameRefused"):
            return f"{action}/n{args[0]}/{base}"
        if action == "Eq":
            return f"Eq/{args[0]}/{base}"
        return f"{action}/{base}"

    def describe(self, action, args, pre):
        return {"action": action, "args": repr(args), "embedding": self.pe.name, "spelling": self.spelling,
                "pre": {"c": [dict(freq=list(m["freq"]), den=m["den"], name=m["name"], dtype=m["dtype"]) for m in pre["c"]] if pre["hc"] else None,
                        "d": [dict(freq=list(m["freq"]), den=m["den"], name=m["name"], dtype=m["dtype"]) for m in pre["d"]] if pre["hd"] else None}}
