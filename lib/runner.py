"""Shared driver: TLC (engine M) + graph replay (engine R) + evidence + verdict lines."""
from __future__ import annotations

import os
import shutil
import sys
import time
from typing import Callable, Dict, List, Optional, Sequence

from . import evidence
from .findings import Findings
from .replay import ReplayStats, replay_graph
from .tlc import Graph, MachineryError, TlcResult, parse_dot, run_tlc, scratch_dir


class CheckContext:
    def __init__(self, prop: str, tier: str, seed: int):
        self.prop, self.tier, self.seed = prop, tier, seed
        self.t0 = time.time()
        self.findings = Findings()
        self.states = 0
        self.transitions = 0
        self.traces = 0
        self.replayed = 0
        self.violations: List[dict] = []
        self.samples: List[dict] = []
        self.tags: Dict[str, int] = {}
        self.per_action: Dict[str, int] = {}
        self.tlc_runs: List[dict] = []
        self.notes: List[str] = []
        self.assumptions: List[str] = []
        self.extra: Dict[str, object] = {}
        self.exhaustive = True
        self.invariants: List[str] = []

    # ------------------------------------------------------------ engine M
    def model_check(self, module: str, cfg: Optional[str] = None, *, dump: bool = True,
                    required_actions: Sequence[str] = (), workers: int = 16, timeout: int = 3000,
                    coverage: bool = False, **kw):
        sc = scratch_dir(self.prop)
        try:
            res = run_tlc(module, cfg, dump_dot=dump, workers=workers, scratch=sc, coverage=coverage,
                          timeout=timeout, **kw)
        except Exception:
            shutil.rmtree(sc, ignore_errors=True)
            raise
        self.states += res.distinct
        self.transitions += res.generated
        run = {"module": module, "cfg": cfg or module, "distinct_states": res.distinct,
               "states_generated": res.generated, "depth": res.depth, "wall_s": round(res.wall_s, 1),
               "ok": res.ok}
        self.tlc_runs.append(run)
        if not res.ok:
            # the *model* violates one of its invariants: that is a fault of the specification
            shutil.rmtree(sc, ignore_errors=True)
            raise MachineryError(f"TLC reports a violated property in the model {module}: {res.violated}\n"
                                 + "\n".join(res.stdout.splitlines()[-60:]))
        g = None
        if dump:
            g = parse_dot(res.dot)
            counts: Dict[str, int] = {}
            for outs in g.out.values():
                for (lab, _d) in outs:
                    counts[lab[0]] = counts.get(lab[0], 0) + 1
            run["action_counts"] = counts
            run["edges"] = g.n_edges
            missing = [a for a in required_actions if not counts.get(a)]
            if missing:
                shutil.rmtree(sc, ignore_errors=True)
                raise MachineryError(f"vacuous model run: actions never taken in {module}: {missing}")
        elif coverage:
            run["action_counts"] = {k: v[1] for k, v in res.coverage.items()}
            missing = [a for a in required_actions if not res.coverage.get(a, (0, 0))[1]]
            if missing:
                raise MachineryError(f"vacuous model run: actions never taken in {module}: {missing}")
        shutil.rmtree(sc, ignore_errors=True)
        return res, g

    def simulate(self, module: str, cfg: Optional[str] = None, *, num: int = 200, depth: int = 8, workers: int = 4):
        """Random behaviours of the specification (tlc -simulate), deeper than the exhaustive bound, as a forest of chains."""
        from .tlc import parse_sim_traces
        sc = scratch_dir(self.prop + "-sim")
        try:
            res = run_tlc(module, cfg, workers=workers, scratch=sc, coverage=False, timeout=3000,
                          simulate=f"file={os.path.join(sc, 'tr')},num={num}", depth=depth, seed=self.seed + 1)
            g = parse_sim_traces(sc)
        finally:
            shutil.rmtree(sc, ignore_errors=True)
        self.tlc_runs.append({"module": module, "cfg": cfg or module, "mode": "simulate", "behaviours": len(g.init), "depth": depth,
                              "edges": g.n_edges, "wall_s": round(res.wall_s, 1), "ok": res.ok})
        self.transitions += g.n_edges
        return g

    # ------------------------------------------------------------ engine R
    def replay(self, g: Graph, adapter, view, *, actions=None, first_actions=None, edge_budget=None, label: str = "",
               rebuild_from_history: bool = False) -> ReplayStats:
        st = replay_graph(g, adapter, view, self.findings, self.prop, edge_budget=edge_budget, seed=self.seed,
                          actions=actions, first_actions=first_actions, sample_every=max(1, g.n_edges // 7),
                          rebuild_from_history=rebuild_from_history or getattr(self, "rebuild_from_history", False))
        self.replayed += st.edges_replayed
        self.traces += st.states_reached   # every reached state is the end of one replayed behaviour
        if st.edges_replayed < st.edges_total:
            self.exhaustive = False
        for k, v in st.tags.items():
            self.tags[k] = self.tags.get(k, 0) + v
        for k, v in st.per_action.items():
            self.per_action[k] = self.per_action.get(k, 0) + v
        for s in st.samples:
            if len(self.samples) < 12:
                self.samples.append(s)
        for v in st.violations:
            if "truncated" not in v:
                v["run"] = label
                self.violations.append(v)
        self.extra.setdefault("replays", []).append({
            "run": label, "edges_total": st.edges_total, "edges_replayed": st.edges_replayed,
            "states_reached": st.states_reached, "states_total": st.states_total,
            "known_finding_hits": st.known_hits, "unreached_after_known_findings": st.skipped_unreached,
            "wall_s": round(st.wall_s, 1)})
        return st

    def add_violation(self, rec: dict):
        self.violations.append(rec)

    # ------------------------------------------------------------ verdict
    def finish(self, rule: str, level: str = "model_checking") -> int:
        wall = time.time() - self.t0
        cov = {
            "states": self.states,
            "transitions": self.transitions,
            "traces_validated_against_impl": self.traces,
            "samples": self.samples or [{"note": "no sample recorded"}],
            "evaluations": self.replayed,
            "distinct_nontrivial": len(self.tags),
            "rule": rule,
            "exhaustive": bool(self.exhaustive),
            "tlc_runs": self.tlc_runs,
            "invariants_checked_by_tlc": self.invariants,
            "replayed_per_action": self.per_action,
            "condition_classes_hit": dict(sorted(self.tags.items())[:400]),
            "known_findings_hit": dict(self.findings.hit),
        }
        cov.update(self.extra)
        nviol = len(self.violations)
        evidence.write(self.prop, self.tier, self.seed, cov, wall, nviol, self.assumptions, level=level)
        rdir = evidence.replay_dir()
        if os.path.isdir(rdir):
            for fn in os.listdir(rdir):
                if fn.startswith(self.prop + "-"):
                    os.unlink(os.path.join(rdir, fn))
        for line in self.findings.lines(self.prop):
            print(line)
        for i, v in enumerate(self.violations[:10]):
            path = evidence.write_replay(self.prop, v, i)
            print(f"VIOLATION property={self.prop} replay={path}")
            print("  ", {k: v.get(k) for k in ('spec', 'action', 'tag', 'fields')}, file=sys.stderr)
        print(f"[{self.prop}/{self.tier}] states={self.states} transitions={self.transitions} replayed={self.replayed} "
              f"classes={len(self.tags)} violations={nviol} wall={wall:.1f}s")
        return 1 if nviol else 0
