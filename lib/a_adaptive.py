"""Adapter binding spec/PhystAdaptive.tla to adaptive fixed-width histograms."""
from __future__ import annotations

import math
from typing import Optional

import numpy as np

from .a_pool import EXC, fmap
from .embed import feq
from .replay import Adapter, Mismatch


class GridEmb:
    """Float grid of one axis: edge(k) is computed exactly as FixedWidthBinning.numpy_bins does."""

    def __init__(self, width, shift=0.0, align=True):
        self.w, self.s, self.align = float(width), float(shift), align
        self.name = f"w{width!r}s{shift!r}"

    def edge(self, k: int) -> float:
        return float(np.float64(k) * np.float64(self.w) + np.float64(self.s))

    def x(self, k: int, cls: str) -> float:
        lo, hi = self.edge(k), self.edge(k + 1)
        if cls == "L":
            return lo
        if cls == "H":
            return math.nextafter(hi, -math.inf)
        m = (lo + hi) / 2
        return m if lo < m < hi else lo

    def index_of(self, v: float, around: int) -> Optional[int]:
        """True float-grid index of v (exact comparisons against the edges)."""
        k = around
        for _ in range(200):
            if self.edge(k) > v:
                k -= 1
            elif self.edge(k + 1) <= v:
                k += 1
            else:
                return k
        return None

    def kwargs(self):
        kw = {"bin_width": self.w}
        if self.s:
            kw["bin_shift"] = self.s
        return kw


class AdaptiveAdapter(Adapter):
    name = "PhystAdaptive"

    def __init__(self, grids, spelling: int = 0, wscale=(1, 1), stats_cls=None, late=False, coll=False):
        # coll: the 1-D histograms are members of one HistogramCollection over an adaptive binning (created by c.create)
        self.coll = coll
        # late: histograms are created with fixed (non-adaptive) fixed-width bins and switched to adaptive only just
        # before the first call that may grow them (set_adaptive(True) after copies / projections have been derived)
        self.late = late
        self.stats_cls = stats_cls      # when every entry of the config uses this position class, statistics can be compared
        self.grids = grids          # list of GridEmb, one per axis (used cyclically)
        self.spelling = spelling
        self.wnum, self.wden = wscale
        import physt
        self.physt = physt

    def initial(self, state):
        return {}

    def _g(self, a):
        return self.grids[a % len(self.grids)]

    def _w(self, w):
        return w if self.wden == 1 else w * self.wnum / self.wden

    def _val(self, v, sq=False):
        from fractions import Fraction
        f = Fraction(self.wnum, self.wden)
        return v * (f * f if sq else f)

    def _point(self, cell, cls, rec=None):
        if rec is not None:
            return [self._g(rec["axes"][a]["grid"] - 1).x(k, cls) for a, k in enumerate(cell)]
        return [self._g(a).x(k, cls) for a, k in enumerate(cell)]

    def _kwargs(self, dim):
        if dim == 1:
            return self._g(0).kwargs()
        kw = {"bin_width": [self._g(a).w for a in range(dim)]}
        if any(self._g(a).s for a in range(dim)):
            kw["bin_shift"] = [self._g(a).s for a in range(dim)]
        return kw

    def _new(self, dim, batch=None):
        kw = self._kwargs(dim)
        if dim == 1:
            data = None if batch is None else np.array([self._point(e[0], e[1])[0] for e in batch])
            w = None
            if batch is not None and (any(e[2] != 1 for e in batch) or self.wden != 1):
                w = np.array([self._w(e[2]) for e in batch], dtype=float)      # weighted prefill -> float histogram
            return self.physt.h1(data, "fixed_width", adaptive=not self.late, weights=w, **kw)
        data = None if batch is None else np.array([self._point(e[0], e[1]) for e in batch])
        w = None
        if batch is not None and (any(e[2] != 1 for e in batch) or self.wden != 1):
            w = np.array([self._w(e[2]) for e in batch])
        return self.physt.h(data, "fixed_width", dim=dim, adaptive=not self.late, weights=w, **kw)

    def _wake(self, h):
        if self.late and not h.is_adaptive():
            h.set_adaptive(True)

    def apply(self, real, action, args, pre):
        obs = {"exc": None, "ret": None}
        o = real
        try:
            if action == "NewEmpty":
                k, dim = args
                o[k] = self._new(dim)
            elif action == "CollCreate":
                k, batch = args
                if "_coll" not in o:
                    from physt.histogram_collection import HistogramCollection
                    from physt.binnings import FixedWidthBinning
                    g = self._g(0)
                    # the collection is a copy of an empty template: whatever happens to it, the template keeps its (no) bins
                    o["_tmpl"] = HistogramCollection(binning=FixedWidthBinning(bin_width=g.w, bin_shift=g.s, bin_count=0, adaptive=True))
                    o["_coll"] = o["_tmpl"].copy()
                data = [self._point(e[0], e[1])[0] for e in batch]
                w = [self._w(e[2]) for e in batch] if (any(e[2] != 1 for e in batch) or self.wden != 1) else None
                o[k] = o["_coll"].create(f"m{k}", data, weights=w)
            elif action == "CollFill":
                i, cell, cls, w = args
                pt = self._point(cell, cls, fmap(pre["pool"])[i])
                obs["ret"] = o[i].fill(pt[0], self._w(w))
            elif action == "CollFillN":
                i, batch = args
                pts = [self._point(e[0], e[1], fmap(pre["pool"])[i]) for e in batch]
                w = np.array([self._w(e[2]) for e in batch]) if (any(e[2] != 1 for e in batch) or self.wden != 1) else None
                o[i].fill_n(np.array([p_[0] for p_ in pts], dtype=float), weights=w)
            elif action == "NewFilled":
                k, dim, batch = args
                if self.coll:
                    if "_coll" not in o:
                        from physt.histogram_collection import HistogramCollection
                        from physt.binnings import FixedWidthBinning
                        g = self._g(0)
                        o["_coll"] = HistogramCollection(binning=FixedWidthBinning(bin_width=g.w, bin_shift=g.s, bin_count=0, adaptive=True))
                    data = [self._point(e[0], e[1])[0] for e in batch]
                    w = [self._w(e[2]) for e in batch] if (any(e[2] != 1 for e in batch) or self.wden != 1) else None
                    o[k] = o["_coll"].create(f"m{k}", data, weights=w)
                else:
                    o[k] = self._new(dim, batch)
            elif action == "Fill":
                i, cell, cls, w = args
                pt = self._point(cell, cls, fmap(pre["pool"])[i])
                h = o[i]
                self._wake(h)
                if len(cell) == 1:
                    obs["ret"] = h.fill(pt[0]) if (w == 1 and self.wden == 1 and self.spelling % 2) else h.fill(pt[0], self._w(w))
                else:
                    obs["ret"] = h.fill(pt) if (w == 1 and self.wden == 1 and self.spelling % 2) else h.fill(np.array(pt), self._w(w))
            elif action == "FillN":
                i, batch = args
                h = o[i]
                self._wake(h)
                dim = h.ndim
                pts = [self._point(e[0], e[1], fmap(pre["pool"])[i]) for e in batch]
                w = None
                if any(e[2] != 1 for e in batch) or self.wden != 1:
                    w = np.array([self._w(e[2]) for e in batch])
                if dim == 1:
                    h.fill_n(np.array([p[0] for p in pts], dtype=float), weights=w)
                else:
                    h.fill_n(np.array(pts, dtype=float).reshape(-1, dim), weights=w)
            elif action == "SliceA":
                i, a, b, k = args
                o[k] = o[i][int(a):int(b)]
            elif action == "FillRefused":
                i, k, how = args
                h = o[i]
                self._wake(h)
                dim = h.ndim
                rec = fmap(pre["pool"])[i]
                pt = self._point(tuple([k] * dim), "M", rec)
                if how == "fill_short":       # one coordinate too few (a vector of one for 1D is no scalar either)
                    obs["ret"] = h.fill(list(pt[:-1]) if dim > 1 else [pt[0]])
                elif how == "fill_long":
                    obs["ret"] = h.fill(list(pt) + [pt[0]])
                elif how == "fill_n_width":
                    obs["ret"] = h.fill_n(np.array([list(pt) + [pt[0]]] * 2)) if dim > 1 else h.fill_n([pt[0], pt[0]], weights=[[1, 2, 3]])
                else:
                    rows = np.array([pt, pt], dtype=float)
                    obs["ret"] = h.fill_n(rows[:, 0] if dim == 1 else rows, weights=[1, 2, 3])
            elif action == "Add":
                i, j, k = args
                self._wake(o[i])
                o[k] = o[i] + o[j]
            elif action == "IAdd":
                i, j = args
                x = o[i]
                self._wake(x)
                x += o[j]
                o[i] = x
            elif action == "Copy":
                i, k = args
                o[k] = o[i].copy()
            elif action == "Project":
                i, ax, k = args
                o[k] = o[i].projection(ax - 1)
            else:
                raise RuntimeError("unknown action " + action)
        except EXC as ex:
            if isinstance(ex, RuntimeError) and str(ex).startswith("unknown action"):
                raise
            obs["exc"] = f"{type(ex).__name__}: {ex}"
        return o, obs

    # ------------------------------------------------------------------ compare
    def _cmp(self, h, rec, view, bad, det, key, grids_for_axes):
        def fail(f, exp, got):
            bad.append(f)
            det[f"{key}.{f}"] = {"expected": exp, "observed": got}
        axes = rec["axes"]
        dim = len(axes)
        if h.ndim != dim:
            fail("ndim", dim, h.ndim)
            return
        # both representations of the bins are read (in an order that depends on the spelling): the (n, 2) array is cached by
        # the binning, so a stale cache shows either here or at the next call
        def read_pairs():
            return [np.asarray(h.bins)] if dim == 1 else [np.asarray(b) for b in h.bins]
        pairs = read_pairs() if self.spelling % 2 else None
        edges = [h.numpy_bins] if dim == 1 else h.edges
        if pairs is None:
            pairs = read_pairs()
        for a in range(dim):
            g = grids_for_axes[a]
            ax = axes[a]
            exp = [g.edge(ax["tmin"] + i) for i in range(ax["count"] + 1)] if ax["count"] else []
            got = np.asarray(edges[a]).ravel().tolist()
            if "bins" in view and got != exp:
                fail("bins", exp, got)
                return
            gotp = pairs[a].reshape(-1, 2).tolist()
            expp = [[exp[i], exp[i + 1]] for i in range(len(exp) - 1)]
            if "bins" in view and gotp != expp:
                fail("bins", expp, gotp)
                return
        shape = tuple(ax["count"] for ax in axes)
        f = np.asarray(h.frequencies)
        e = np.asarray(h.errors2)
        if "dtype_consistent" in view and not (np.dtype(h.dtype) == f.dtype == e.dtype):
            fail("dtype_consistent", "reported dtype == dtype of frequencies == dtype of errors2", [str(np.dtype(h.dtype)), str(f.dtype), str(e.dtype)])
        if f.shape != shape or e.shape != shape:
            fail("shape", shape, [f.shape, e.shape])
            return
        ef = np.zeros(shape, dtype=object)
        ee = np.zeros(shape, dtype=object)
        for (cell, fr, e2) in rec["cont"]:
            ix = tuple(cell[a] - axes[a]["tmin"] for a in range(dim))
            ef[ix] = self._val(fr)
            ee[ix] = self._val(e2, True)
        if "freq" in view:
            if not all(feq(f[ix], ef[ix]) for ix in np.ndindex(*shape)):
                fail("freq", {str(c): str(self._val(v)) for (c, v, _e) in rec["cont"]}, f.tolist())
        if "err2" in view:
            if not all(feq(e[ix], ee[ix]) for ix in np.ndindex(*shape)):
                fail("err2", {str(c): str(self._val(v, True)) for (c, _f, v) in rec["cont"]}, e.tolist())
        if "missed" in view:
            if dim == 1:
                m = (float(h.underflow), float(h.overflow))
                if m != (0.0, 0.0):
                    fail("missed", [0, 0], list(m))
            elif float(h.missed) != 0.0:
                fail("missed", 0, float(h.missed))
        if "total" in view:
            tot = sum(self._val(t[1]) for t in rec["cont"])
            if not feq(h.total, tot):
                fail("total", str(tot), repr(h.total))
        if "adaptive" in view and not h.is_adaptive():
            fail("adaptive", True, False)

    def _axis_grids(self, i, post, action, args):
        rec = fmap(post["pool"])[i]
        return [self._g(a) for a in range(len(rec["axes"]))]

    def compare(self, real, obs, post, action, args, pre, view) -> Optional[Mismatch]:
        bad, det = [], {}
        if action == "FillRefused":
            if obs["exc"] is None:
                return Mismatch(["refused"], {"expected": "an exception", "observed": repr(obs["ret"])})
        elif obs["exc"] is not None:
            return Mismatch(["accepted"], {"raised": obs["exc"]})
        pool = fmap(post["pool"])
        live = {i for i, r in pool.items() if "null" not in r}
        if {k_ for k_ in real.keys() if not str(k_).startswith("_")} != live:
            bad.append("live")
        if action == "Fill" and "ret" in view:
            i, cell, cls, w = args
            rec = pool[i]
            exp = tuple(cell[a] - rec["axes"][a]["tmin"] for a in range(len(cell)))
            got = obs["ret"]
            try:
                gotn = (int(got),) if len(cell) == 1 else tuple(int(v) for v in got)
            except Exception:
                gotn = None
            if gotn != exp:
                bad.append("ret")
                det["ret"] = {"expected": exp, "observed": repr(got)}
        if "_tmpl" in real and (real["_tmpl"].binning.bin_count != 0 or len(real["_tmpl"]) != 0):
            bad.append("template")
            det["template"] = {"expected": "the copied-from empty collection keeps 0 bins and 0 members",
                               "observed": {"bin_count": int(real["_tmpl"].binning.bin_count), "members": len(real["_tmpl"])}}
        for i in sorted(live & {k_ for k_ in real.keys() if not str(k_).startswith("_")}):
            rec = pool[i]
            grids = [self._g(a) for a in range(len(rec["axes"]))]
            if rec.get("proj") is not None:
                grids = [self._g(rec["proj"] - 1)]
            try:
                v_ = view - {"missed", "adaptive"} if rec.get("sliced") else view      # a selection: neither adaptive nor free of under/overflow
                self._cmp(real[i], rec, v_, bad, det, str(i), [self._g(ax["grid"] - 1) for ax in rec["axes"]])
                gh = fmap(post["ghost"])[i]
                if "stats" in view and self.stats_cls and len(rec["axes"]) == 1 and gh and ("untracked",) not in gh and self.wden == 1:
                    g = self._g(rec["axes"][0]["grid"] - 1)
                    xs = [(g.x(c[0], self.stats_cls), w, k) for (c, w, k) in gh]
                    W = sum(w * k for _x, w, k in xs)
                    S1 = sum(w * k * x for x, w, k in xs)
                    S2 = sum(w * k * x * x for x, w, k in xs)
                    st = real[i].statistics
                    tol = lambda a, b: abs(float(a) - b) <= 1e-12 * max(1.0, abs(b))
                    if not (tol(st.weight, W) and tol(st.sum, S1) and tol(st.sum2, S2) and float(st.min) == min(x for x, _w, _k in xs)
                            and float(st.max) == max(x for x, _w, _k in xs)):
                        bad.append("stats")
                        det[f"{i}.stats"] = {"expected": {"weight": W, "sum": S1, "sum2": S2}, "observed": repr(st)}
            except EXC as ex:
                bad.append("snapshot")
                det[f"{i}.snapshot"] = f"{type(ex).__name__}: {ex}"
        if bad:
            return Mismatch(sorted(set(bad)), det)
        return None

    def _grids_of(self, i, real, rec):
        # a projection onto axis 2 lives on the second axis' grid: identify the grid by the bin width of the real object
        dim = len(rec["axes"])
        if dim == 1 and len(self.grids) > 1:
            try:
                w = float(real[i].binning.bin_width)
                for g in self.grids:
                    if g.w == w:
                        return [g]
            except Exception:
                pass
        return [self._g(a) for a in range(dim)]

    def build(self, state):
        return None

    def tag(self, action, args, pre, real=None):
        if action.startswith("Coll"):
            pool = fmap(pre["pool"])
            n = sum(1 for r in pool.values() if "null" not in r)
            who = args[0]
            grows = "?"
            return f"{action}/members{n}"
        t = self._tag(action, args, pre)
        if self.coll:
            others = sum(1 for r in fmap(pre["pool"]).values() if "null" not in r)
            return t + ("~coll-shared" if others >= (2 if action in ("Fill", "FillN") else 1) else "~coll")
        return t

    def _tag(self, action, args, pre):
        pool = fmap(pre["pool"])

        def st(i):
            r = pool.get(i)
            if r is None or "null" in r:
                return "-"
            return "x".join("0" if ax["count"] == 0 else "n" for ax in r["axes"])

        def rel(i, cell):
            r = pool[i]
            out = []
            for a, k in enumerate(cell):
                ax = r["axes"][a]
                if ax["count"] == 0:
                    out.append("first")
                elif k < ax["tmin"]:
                    out.append("left" if k == ax["tmin"] - 1 else "farleft")
                elif k > ax["tmin"] + ax["count"] - 1:
                    out.append("right" if k == ax["tmin"] + ax["count"] else "farright")
                else:
                    out.append("inside")
            return ",".join(out)
        if action == "NewEmpty":
            return f"NewEmpty/d{args[1]}"
        if action == "NewFilled":
            return f"NewFilled/d{args[1]}/{len(args[2])}/" + "".join(e[1] for e in args[2])
        if action == "Fill":
            i, cell, cls, w = args
            return f"Fill/{rel(i, cell)}/{cls}/w{w}/k{'n' if any(k < 0 for k in cell) else 'p'}"
        if action == "FillN":
            i, batch = args
            return f"FillN/{st(i)}/" + "|".join(sorted({rel(i, e[0]) + e[1] for e in batch})) if batch else f"FillN/{st(i)}/empty"
        if action in ("Add", "IAdd"):
            return f"{action}/{st(args[0])}/{st(args[1])}"
        if action == "FillRefused":
            i, k, how = args
            return f"FillRefused/{how}/{st(i)}/{rel(i, tuple([k] * len(pool[i]['axes'])))}"
        return f"{action}/{st(args[0])}"

    def describe(self, action, args, pre):
        d = {"action": action, "args": repr(args), "grids": [g.name for g in self.grids], "spelling": self.spelling}
        if action == "Fill":
            d["point"] = [repr(v) for v in self._point(args[1], args[2])]
        if action == "FillN":
            d["points"] = [[repr(v) for v in self._point(e[0], e[1])] for e in args[1]]
        if action == "NewFilled":
            d["points"] = [[repr(v) for v in self._point(e[0], e[1])] for e in args[2]]
        d["pre"] = {str(i): (None if "null" in r else {"axes": [dict(a) for a in r["axes"]], "cont": sorted(list(r["cont"]))})
                    for i, r in fmap(pre["pool"]).items()}
        return d
