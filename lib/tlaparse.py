"""Parser for TLA+ values as printed by TLC (state dumps, dot labels, PrintT).

Mapping to Python:
  integers -> int, strings -> str, TRUE/FALSE -> bool, model values -> MV(name)
  <<a, b>>            -> tuple
  {a, b}              -> frozenset
  [f |-> v, ...]      -> FD (hashable dict, str keys)
  (k :> v @@ k :> v)  -> FD (hashable dict, arbitrary keys)
  a..b                -> frozenset(range)
A state is a conjunction "/\\ var = value" and is returned as a plain dict.
"""
from __future__ import annotations


class FD(dict):
    """Hashable dict (records and explicit functions)."""

    def __hash__(self):  # type: ignore[override]
        return hash(frozenset(self.items()))

    def __getattr__(self, k):
        try:
            return self[k]
        except KeyError as e:
            raise AttributeError(k) from e


class MV(str):
    """Model value."""


class ParseError(Exception):
    pass


class _P:
    def __init__(self, text: str):
        self.t = text
        self.i = 0
        self.n = len(text)

    def ws(self):
        t, n = self.t, self.n
        while self.i < n and t[self.i] in " \t\r\n":
            self.i += 1

    def peek(self, s: str) -> bool:
        self.ws()
        return self.t.startswith(s, self.i)

    def eat(self, s: str):
        self.ws()
        if not self.t.startswith(s, self.i):
            raise ParseError(f"expected {s!r} at {self.i}: {self.t[self.i:self.i+40]!r}")
        self.i += len(s)

    def ident(self) -> str:
        self.ws()
        j = self.i
        t, n = self.t, self.n
        while j < n and (t[j].isalnum() or t[j] == "_"):
            j += 1
        if j == self.i:
            raise ParseError(f"identifier expected at {self.i}: {t[self.i:self.i+40]!r}")
        s = t[self.i:j]
        self.i = j
        return s

    def value(self):
        self.ws()
        t = self.t
        c = t[self.i]
        if c == "<" and t.startswith("<<", self.i):
            self.i += 2
            items = []
            if self.peek(">>"):
                self.eat(">>")
                return ()
            while True:
                items.append(self.value())
                if self.peek(","):
                    self.eat(",")
                    continue
                self.eat(">>")
                return tuple(items)
        if c == "{":
            self.i += 1
            items = []
            if self.peek("}"):
                self.eat("}")
                return frozenset()
            while True:
                items.append(self.value())
                if self.peek(","):
                    self.eat(",")
                    continue
                self.eat("}")
                return frozenset(items)
        if c == "[":
            self.i += 1
            d = FD()
            if self.peek("]"):
                self.eat("]")
                return d
            while True:
                k = self.ident()
                self.eat("|->")
                d[k] = self.value()
                if self.peek(","):
                    self.eat(",")
                    continue
                self.eat("]")
                return d
        if c == "(":
            self.i += 1
            d = FD()
            while True:
                k = self.value()
                self.eat(":>")
                d[k] = self.value()
                if self.peek("@@"):
                    self.eat("@@")
                    continue
                self.eat(")")
                return d
        if c == '"':
            j = self.i + 1
            out = []
            while t[j] != '"':
                if t[j] == "\\":
                    j += 1
                out.append(t[j])
                j += 1
            self.i = j + 1
            return "".join(out)
        if c == "-" or c.isdigit():
            j = self.i + 1
            while j < self.n and t[j].isdigit():
                j += 1
            v = int(t[self.i:j])
            self.i = j
            if t.startswith("..", self.i):
                self.i += 2
                hi = self.value()
                return frozenset(range(v, hi + 1))
            return v
        s = self.ident()
        if s == "TRUE":
            return True
        if s == "FALSE":
            return False
        return MV(s)


def parse_value(text: str):
    p = _P(text)
    v = p.value()
    p.ws()
    if p.i != p.n:
        raise ParseError(f"trailing text at {p.i}: {text[p.i:p.i+40]!r}")
    return v


def parse_state(text: str) -> dict:
    """Parse '/\\ a = v /\\ b = w' (or a single 'a = v')."""
    p = _P(text)
    st = {}
    while True:
        p.ws()
        if p.i >= p.n:
            break
        if p.peek("/\\"):
            p.eat("/\\")
        k = p.ident()
        p.eat("=")
        st[k] = p.value()
    return st


def to_tla(v) -> str:
    """Render a Python value back as a TLA+ expression (inverse of parse_value)."""
    if isinstance(v, bool):
        return "TRUE" if v else "FALSE"
    if isinstance(v, MV):
        return str(v)
    if isinstance(v, int):
        return str(v)
    if isinstance(v, str):
        return '"' + v.replace("\\", "\\\\").replace('"', '\\"') + '"'
    if isinstance(v, (tuple, list)):
        return "<<" + ", ".join(to_tla(x) for x in v) + ">>"
    if isinstance(v, (set, frozenset)):
        return "{" + ", ".join(sorted(to_tla(x) for x in v)) + "}"
    if isinstance(v, dict):
        if all(isinstance(k, str) and k.isidentifier() for k in v) and v:
            return "[" + ", ".join(f"{k} |-> {to_tla(x)}" for k, x in v.items()) + "]"
        if not v:
            return "<<>>"
        return "(" + " @@ ".join(f"{to_tla(k)} :> {to_tla(x)}" for k, x in v.items()) + ")"
    raise TypeError(f"cannot render {v!r}")
