"""HistogramCollection (spec/PhystCollection.tla): shared by C05 (sum), C06 (normalize_all / normalize_bins), C12 (copies, round trip)
and C18 (refused members / names)."""
from lib.a_collection import CollectionAdapter
from lib.embed import POS

VIEW = {"accepted", "refused", "bins", "freq", "err2", "under", "over", "dtype", "name", "keep", "stats", "live"}
REQ = ["NewColl", "FromMembers", "FromMembersRefused", "Create", "AddMember", "AddRefused", "GetByName", "GetByNameRefused", "Sum", "FillSum",
       "CopyColl", "JsonRoundTrip", "FillMember", "NormalizeAll", "NormalizeBins", "Eq"]


def run_part(ctx, tier, label="collection", quick_combos=1, quick_budget=40000):
    if tier == "thorough":
        ctx.model_check("MC_Collection_t", dump=False)        # up to three members, one more call: TLC only (a million states)
    _res, g = ctx.model_check("MC_Collection_q", required_actions=REQ)
    combos = [("dyadic", 0), ("ulp", 1)][:quick_combos] if tier == "quick" else [("dyadic", 0), ("ulp", 1), ("neg", 0)]
    for pe, sp in combos:
        ctx.replay(g, CollectionAdapter(POS[pe], spelling=sp), VIEW, label=f"{label}:{pe}/sp{sp}", edge_budget=quick_budget if tier == "quick" else 200000)
