"""Adaptive branches of C05 (addition on the common grid) and C12 (independence under bin growth)."""
from lib.a_adaptive import AdaptiveAdapter, GridEmb

VIEW = {"accepted", "bins", "freq", "err2", "missed", "total", "live", "adaptive", "stats", "dtype_consistent"}
GRIDS = [[GridEmb(1.0), GridEmb(0.5)], [GridEmb(0.1), GridEmb(2.5, 0.5)]]


def _run(ctx, tier, label, base="MC_Adaptive_add", req=("NewEmpty", "NewFilled", "Add", "IAdd", "Copy", "Project", "Fill", "FillN"), quick_budget=50000):
    if tier == "thorough":
        ctx.model_check(base + "t", dump=False)
    _res, g = ctx.model_check(base + "q", required_actions=list(req))
    for n, gr in enumerate(GRIDS if tier == "thorough" else GRIDS[:1]):
        ctx.replay(g, AdaptiveAdapter(gr, spelling=n, stats_cls="M"), VIEW, label=f"{label}:" + "/".join(x.name for x in gr),
                   edge_budget=quick_budget if tier == "quick" else 300000)
    return g


def add_part(ctx, tier):
    _run(ctx, tier, "adaptive-add", "MC_Adaptive_c05", ("NewEmpty", "NewFilled", "Add", "IAdd", "Copy", "Fill", "FillN"))


def stats_part(ctx, tier):
    """C14: statistics accumulate over adaptive addition too."""
    _run(ctx, tier, "adaptive-stats", "MC_Adaptive_c05", ("NewEmpty", "NewFilled", "Add", "IAdd", "Copy", "Fill", "FillN"))


def dtype_part(ctx, tier):
    """C13: sums of integer and float adaptive histograms report the dtype their arrays have."""
    _run(ctx, tier, "adaptive-dtype", "MC_Adaptive_c05", ("NewEmpty", "NewFilled", "Add", "IAdd", "Copy", "Fill", "FillN"))


def independence_part(ctx, tier):
    g = _run(ctx, tier, "adaptive-independence", quick_budget=40000)
    # the same histories with histograms that become adaptive only after copies / projections were derived from them
    ctx.replay(g, AdaptiveAdapter(GRIDS[0], spelling=1, stats_cls="M", late=True), VIEW - {"adaptive"}, label="adaptive-independence-late:" + "/".join(x.name for x in GRIDS[0]),
               edge_budget=40000 if tier == "quick" else 300000)


def collection_part(ctx, tier):
    """C18 / C12: members of a HistogramCollection over one adaptive binning (spec: the shared binning makes every member span the
    union of all ranges; contents stay attached to their intervals)."""
    _res, g = ctx.model_check("MC_Adaptive_collq", required_actions=["CollCreate", "CollFill", "CollFillN"])
    view = VIEW - {"stats"}
    for n, gr in enumerate([[GridEmb(1.0)], [GridEmb(0.5, 0.25)]][:1 if tier == "quick" else 2]):
        ctx.replay(g, AdaptiveAdapter(gr, spelling=n), view, label="adaptive-collection:" + gr[0].name)
