"""C10 - merge_bins conserves content and bin boundaries."""
from lib.a_nd import NDAdapter
from lib.embed import POS, WTS
from lib.runner import CheckContext
from props.pool import run_pool, FULL_VIEW

ND_VIEW = {"accepted", "refused", "class", "bins", "freq", "err2", "total", "names", "live", "missed"}


def run(tier, seed):
    ctx = CheckContext("C10", tier, seed)
    ctx.invariants = ["MergeLaws (HistPool)", "MergeLaws (HistND)", "RefusalIsNoOp", "Independence", "SourceUntouched"]
    cfg = "MC_HistPool_c10q" if tier == "quick" else "MC_HistPool_c10t"
    # tiny: gaps far below numpy.allclose's tolerance are still gaps - merging across them must be refused
    emb = [("dyadic", 0), ("ulp", 1), ("tiny", 2)] if tier == "quick" else [("dyadic", 0), ("ulp", 1), ("decimal", 2), ("tiny", 1)]
    # contents assigned through the public setters come in as well; the C10 view leaves dtype / statistics to C13 / C14
    view = FULL_VIEW - {"dtype", "stats"}
    run_pool(ctx, cfg, ["New", "Merge", "MergeRefused", "MergeFracRefused", "MergeMinFreq", "SetFreqHalf"], view, emb)
    nd_part(ctx, tier)
    degenerate_part(ctx, tier)
    ctx.assumptions = ["for min_frequency the statement fixes no particular grouping: the spec step is nondeterministic over all "
                       "coarsenings into runs of adjacent bins and the code must produce one of them (refinement)"]
    return ctx.finish("1D: irregular 5-bin, gapped 4-bin, 1-bin and 3-bin histograms x amounts 1..7 x inplace/copy x chains of two merges, "
                      "min_frequency thresholds, refused merges across gaps and fractional amounts; ND: shapes (3,4g), (2,3,2), (4g,3) "
                      "with distinct cell contents x amounts 1..5 x single axis / all axes x inplace/copy")


def degenerate_part(ctx, tier):
    """Histograms without any bin (adaptive, nothing entered yet): Merged of the empty sequence of bins is the empty sequence -
    merge_bins returns a histogram without bins and without content, and (unless inplace) one of its own."""
    import physt
    n = 0
    for dim in (1, 2):
        for kw in ({"amount": 1}, {"amount": 2}, {"amount": 3}, {"min_frequency": 1}):
            for extra in ({}, {"inplace": True}, {"axis": 0}, {"axis": 0, "inplace": True}):
                h = physt.h1(None, "fixed_width", bin_width=1, adaptive=True) if dim == 1 else physt.h2(None, None, "fixed_width", bin_width=1, adaptive=True)
                n += 1
                tag = f"MergeNoBins/d{dim}/{'+'.join(sorted(kw))}/{'+'.join(sorted(extra)) or 'plain'}"
                ctx.tags[tag] = ctx.tags.get(tag, 0) + 1
                try:
                    m = h.merge_bins(**kw, **extra)
                    ok = m.shape == ((0,) * dim) and float(m.total) == 0.0 and (m is h) == bool(extra.get("inplace"))
                    got = {"shape": m.shape, "total": float(m.total), "same_object": m is h}
                except Exception as ex:
                    ok, got = False, {"raised": f"{type(ex).__name__}: {ex}"}
                if not ok:
                    ctx.add_violation({"property": "C10", "spec": "HistND", "action": "Merge", "tag": tag, "fields": ["accepted"],
                                       "detail": {"expected": {"shape": (0,) * dim, "total": 0.0, "same_object": bool(extra.get("inplace"))}, "observed": got},
                                       "call": {"dim": dim, "arguments": {**kw, **extra}}})
    ctx.replayed += n


def nd_part(ctx, tier):
    cfg = "MC_HistND_c10q" if tier == "quick" else "MC_HistND_c10t"
    _res, g = ctx.model_check(cfg, required_actions=["FromArrays", "Merge", "MergeRefused"])
    for pe, we, sp in [("dyadic", "int", 0), ("ulp", "half", 1), ("tiny", "int", 0)]:
        ctx.replay(g, NDAdapter(POS[pe], WTS[we], spelling=sp), ND_VIEW, label=f"ND:{pe}/{we}/sp{sp}")


def refusal_part(ctx, tier):
    """C18: a refused ND merge must leave the histogram unchanged."""
    cfg = "MC_HistND_c10q" if tier == "quick" else "MC_HistND_c10t"
    _res, g = ctx.model_check(cfg, required_actions=["FromArrays", "Merge", "MergeRefused"])
    for pe, we, sp in [("dyadic", "int", 0)]:
        ctx.replay(g, NDAdapter(POS[pe], WTS[we], spelling=sp), ND_VIEW | {"unchanged_on_refusal"}, label=f"ND:{pe}/{we}/sp{sp}")
