"""C08 - JSON round trip reproduces the histogram exactly."""
from lib.a_io import IOAdapter
from lib.embed import POS
from lib.runner import CheckContext
from lib.tlc import MachineryError

REQ = ["Pick", "ToJson", "Parse", "ToJson2", "SaveLoad", "VersionCheck"]


def run(tier, seed):
    import physt
    ctx = CheckContext("C08", tier, seed)
    ctx.invariants = ["RoundTrip", "Idempotent"]
    if physt.__version__ != "0.8.4":
        raise MachineryError(f"spec constant Current = <<0,8,4>> but physt.__version__ = {physt.__version__}")
    cfg = "MC_IO_q" if tier == "quick" else "MC_IO_t"
    _res, g = ctx.model_check(cfg, required_actions=REQ)
    # tiny: gaps between bins far below numpy.allclose's tolerance are still gaps and must come back as gaps
    combos = [("decimal", 0, 0.1), ("ulp", 1, 1.0), ("tiny", 0, 1e-300)]
    if tier == "thorough":
        combos += [("dyadic", 0, 0.5), ("huge", 1, 1e300), ("neg", 1, 1 / 3)]
    for pe, sp, fs in combos:
        ctx.replay(g, IOAdapter(POS[pe], sp, fs), {"all"}, label=f"{pe}/sp{sp}/x{fs}")
    ctx.assumptions = ["float -> text -> float fidelity inside the json module (repr round trip) is Python's guarantee and only sampled",
                       "bit-identity is checked on the arrays' bytes under non-dyadic (decimal) and one-ulp embeddings"]
    return ctx.finish("17 subjects (1D static/gapped/numpy/fixed-width adaptive/exponential, 2D, 3D, the seven transformed classes, a "
                      "collection; int16..float64; NaN and non-zero missed counters; keep_missed off; custom errors; non-ASCII and nested "
                      "metadata) x to_json/parse_json, save/load through a file, second serialisation, 18 declared version triples")
