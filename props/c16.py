"""C16 - densities, bin geometry and cumulative values are consistent."""
from lib.a_geom import GeomAdapter
from lib.embed import POS
from lib.runner import CheckContext

RE, ZE = (0, 2, 3, 7), (-3, 0, 2, 5)
LA = ((2, 4), (4, 10), (10, 12))
LG = ((0, 2), (6, 8), (8, 14))
L1 = ((-4, 6),)
CONTENTS = {LA: (1, 5, 2), LG: (3, 0, 4), L1: (7,)}


def run(tier, seed):
    ctx = CheckContext("C16", tier, seed)
    ctx.invariants = ["TotalMeasure", "AdditiveUnderMerge", "CumulativeEndsAtTotal"]
    runs = [("MC_Geom_q", 8, 2, "dyadic", 1.0), ("MC_Geom_q", 8, 2, "neg", 0.5)]
    if tier == "thorough":
        runs += [("MC_Geom_t", 4, 1, "int", 3.0), ("MC_Geom_t", 4, 1, "dyadic", 0.1)]
    graphs = {}
    for cfg, nphi, nth, pe, scale in runs:
        if cfg not in graphs:
            graphs[cfg] = ctx.model_check(cfg, required_actions=["Geometry1D", "Geometry2D", "Measures"])[1]
        ctx.replay(graphs[cfg], GeomAdapter(POS[pe], RE, ZE, nphi, nth, CONTENTS, scale), {"all"}, label=f"{cfg}/{pe}/phi{nphi}/theta{nth}/x{scale}")
    merge_part(ctx, tier)
    ctx.assumptions = ["measures are exact rationals times pi (phi sectors of 2 pi/N, theta edges with cosines 1, 0, -1, integer radii); floats "
                       "compared within 16 ulp of coef*pi, plain widths/centres/products exactly"]
    return ctx.finish("bin_sizes of the seven transformed classes against the exact formula tables TLC computes (and their sums: pi R^2, 4 pi, "
                      "4/3 pi R^3, additivity under merging checked as invariants), densities*bin_sizes = frequencies for all classes, "
                      "widths / centres / edges / per-axis and mesh forms / total_width excluding gaps / cumulative frequencies of plain 1D and 2D histograms")


def merge_part(ctx, tier):
    """Additivity on the real objects: size of a merged radial run equals the sum of the sizes."""
    import numpy as np
    from physt import special_histograms as S
    n = 0
    for amount in (2, 3):
        for cls, bs in (("RadialHistogram", [np.array([0., 2., 3., 7., 8.])]),
                        ("PolarHistogram", [np.array([0., 2., 3., 7., 8.]), np.linspace(0, 2 * np.pi, 5)])):
            k = getattr(S, cls)
            shape = tuple(len(b) - 1 for b in bs)
            f = np.arange(int(np.prod(shape)), dtype=float).reshape(shape) + 1
            h = k(bs[0], f) if len(bs) == 1 else k(bs, f)
            m = h.merge_bins(amount, axis=0)
            sizes, msizes = np.asarray(h.bin_sizes), np.asarray(m.bin_sizes)
            for j in range(msizes.shape[0]):
                want = sizes[j * amount:(j + 1) * amount].sum(axis=0)
                n += 1
                if not np.allclose(msizes[j], want, rtol=1e-14, atol=0):
                    ctx.add_violation({"property": "C16", "spec": "PhystGeom", "action": "MergeAdditive", "tag": f"MergeAdditive/{cls}/{amount}",
                                       "fields": ["bin_sizes"], "detail": {"expected": np.asarray(want).tolist(), "observed": np.asarray(msizes[j]).tolist()},
                                       "call": {"class": cls, "amount": amount}})
            if type(m).__name__ != cls:
                ctx.add_violation({"property": "C16", "spec": "PhystGeom", "action": "MergeAdditive", "tag": f"MergeClass/{cls}", "fields": ["class"],
                                   "detail": type(m).__name__, "call": {"class": cls}})
    # gapped bins: a merged run that straddles a gap would cover more than its parts; the merge must be refused or stay additive
    from physt.types import Histogram1D, Histogram2D
    gapped = np.array([[0., 1.], [1., 2.], [3., 4.], [4., 6.]])
    cases = [("Histogram1D", Histogram1D(gapped, np.array([1., 2., 3., 4.])), 0),
             ("Histogram2D", Histogram2D([gapped, np.array([0., 1., 3.])], np.arange(8, dtype=float).reshape(4, 2) + 1), 0),
             ("RadialHistogram", S.RadialHistogram(gapped, np.array([1., 2., 3., 4.])), 0)]
    for name, h, axis in cases:
        for amount in (2, 3, 4):
            n += 1
            try:
                m = h.merge_bins(amount, axis=axis)
            except Exception:
                continue        # refused: fine
            if not np.isclose(np.asarray(m.bin_sizes).sum(), np.asarray(h.bin_sizes).sum(), rtol=1e-14, atol=0):
                ctx.add_violation({"property": "C16", "spec": "PhystGeom", "action": "MergeAdditive", "tag": f"MergeAcrossGap/{name}/{amount}",
                                   "fields": ["bin_sizes"], "detail": {"sum_before": float(np.asarray(h.bin_sizes).sum()),
                                                                        "sum_after": float(np.asarray(m.bin_sizes).sum())},
                                   "call": {"class": name, "amount": amount, "bins": gapped.tolist()}})
    ctx.replayed += n
    ctx.tags["MergeAdditive"] = n
