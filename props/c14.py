"""C14 - statistics are those of the raw data entered, not of the bins."""
from lib.a_hist1d import Hist1DAdapter
from lib.embed import POS, WTS
from lib.runner import CheckContext

VIEW = {"accepted", "stats", "median", "freq"}
INVARIANTS = ["RawStatistics", "AllInMeansAllIn", "EntryPathIrrelevant"]


def run(tier, seed):
    ctx = CheckContext("C14", tier, seed)
    ctx.invariants = INVARIANTS
    if tier == "thorough":
        ctx.model_check("MC_Hist1D_thorough", dump=False)
    cfg = "MC_Hist1D_quick" if tier == "quick" else "MC_Hist1D_mid"
    _res, g = ctx.model_check(cfg, required_actions=["NewEmpty", "Construct", "Fill", "FillN"])
    combos = [("dyadic", "int", 0), ("neg", "half", 1)]
    if tier == "thorough":
        combos += [("int", "npint", 2), ("dyadic", "quarter32", 3), ("neg", "float1", 0)]
    for pe, we, sp in combos:
        ctx.replay(g, Hist1DAdapter(POS[pe], WTS[we], spelling=sp), VIEW, label=f"1D:{pe}/{we}/sp{sp}",
                   edge_budget=35000 if tier == "quick" else 400000)
    pool_part(ctx, tier)
    ctx.assumptions = ["statistics are compared on affine dyadic embeddings only, where float sums are exact",
                       "variance compared within 4 eps of its operands' scale (two roundings); mean exactly"]
    return ctx.finish("every transition of the Hist1D state graph whose history lies inside the bins: weight, sum, sum2, min, max "
                      "compared exactly with the spec's integer moments mapped through the affine embedding; median must equal the "
                      "data median after unweighted construction and may otherwise only be NaN or the true median")


def pool_part(ctx, tier):
    try:
        from props import pool
    except Exception:
        return
    pool.stats_part(ctx, tier)
    from props import adaptive
    adaptive.stats_part(ctx, tier)
