"""Engine T for N-D histograms (C02, C03): record random float programs, abstract them by per-axis ranks, let TLC validate them
against spec/TraceHistND.tla (= HistND + one trace action per public call)."""
import json
import math
import os
import random
import shutil

import numpy as np

from lib.tlc import MachineryError, run_tlc, scratch_dir

NAN_POS = 99999
NONE_RET = [-7]


def rand_axis(rng):
    """Bins of one axis: 1..4 bins, consecutive or gapped, given as edges / pairs / binning objects."""
    n = rng.randrange(1, 5)
    scale = rng.choice([1.0, 0.1, 1e-3, 1e6, 2.0 ** -20])
    start = rng.choice([0.0, -3.0, 0.25, 1e3]) * scale
    e = [start]
    pairs = []
    gapped = rng.random() < 0.3 and n > 1
    for _ in range(n):
        left = e[-1]
        if gapped and pairs and rng.random() < 0.6:
            left = e[-1] + rng.choice([0.5, 1.0, 2.0]) * scale
        right = left + rng.choice([0.5, 1.0, 1.5, 3.0]) * scale
        pairs.append((left, right))
        e.append(right)
    consecutive = all(pairs[i][1] == pairs[i + 1][0] for i in range(n - 1))
    return pairs, consecutive


def rand_coord(rng, pairs):
    edges = sorted({v for p in pairs for v in p})
    lo, hi = edges[0], edges[-1]
    k = rng.random()
    if k < 0.25:
        return rng.choice(edges)
    if k < 0.4:
        e = rng.choice(edges)
        return math.nextafter(e, rng.choice([-math.inf, math.inf]))
    if k < 0.5:
        return rng.choice([lo - (hi - lo) - 1.0, hi + (hi - lo) + 1.0])
    if k < 0.55:
        return float("nan")
    return lo + (hi - lo) * rng.random()


def record_programs(seed, n_programs):
    import physt
    from physt.binnings import StaticBinning, NumpyBinning
    from physt.types import HistogramND, Histogram2D
    rng = random.Random(seed)
    programs, raised = [], []
    for p in range(n_programs):
        dim = rng.choice([2, 2, 3])
        axes = [rand_axis(rng) for _ in range(dim)]
        as_objects = rng.random() < 0.6 or not all(c for (_p, c) in axes)
        rincl = [True] * dim
        if as_objects:
            rincl = [rng.random() < 0.5 for _ in range(dim)]
            bins = []
            for (pairs, cons), ri in zip(axes, rincl):
                if cons and rng.random() < 0.5:
                    bins.append(NumpyBinning(np.array([pairs[0][0]] + [q[1] for q in pairs]), includes_right_edge=ri))
                else:
                    bins.append(StaticBinning(np.array(pairs), includes_right_edge=ri))
        else:
            bins = [np.array([pairs[0][0]] + [q[1] for q in pairs]) for (pairs, _c) in axes]
        n = rng.randrange(0, 7)
        rows = [[rand_coord(rng, axes[a][0]) for a in range(dim)] for _ in range(n)]
        weighted = rng.random() < 0.5
        wts = [rng.choice([1, 2, 3]) for _ in rows]
        data = np.array(rows, dtype=float).reshape(-1, dim)
        kw = {"weights": np.array(wts, dtype=np.int64)} if weighted else {}
        how = rng.randrange(3)
        keep = True
        try:
            if n == 0 or how == 2:
                keep = rng.random() < 0.8
                cls = Histogram2D if dim == 2 else HistogramND
                h = cls([b if not isinstance(b, np.ndarray) else NumpyBinning(b, includes_right_edge=True) for b in bins], keep_missed=keep)
                if n:
                    h.fill_n(data, **kw)
            elif how == 0:
                h = physt.h(data, bins, **kw)
            elif dim == 2:
                h = physt.h2(data[:, 0], data[:, 1], bins, **kw)
            else:
                h = physt.h3([data[:, 0], data[:, 1], data[:, 2]], bins, **kw)
        except Exception as ex:
            raised.append({"program": p, "call": "construct", "bins": [a[0] for a in axes], "rows": [[repr(v) for v in r] for r in rows],
                           "raised": f"{type(ex).__name__}: {ex}"})
            continue
        steps = [("construct", rows, wts if weighted else [1] * len(rows), None, snapshot(h))]
        for _ in range(rng.randrange(0, 4)):
            if rng.random() < 0.5:
                row = [rand_coord(rng, axes[a][0]) for a in range(dim)]
                w = rng.choice([1, 2])
                try:
                    r = h.fill(row if rng.random() < 0.5 else np.array(row), w)
                except Exception as ex:
                    raised.append({"program": p, "call": "fill", "rows": [[repr(v) for v in row]], "raised": f"{type(ex).__name__}: {ex}"})
                    break
                steps.append(("fill", [row], [w], r, snapshot(h)))
            else:
                rs = [[rand_coord(rng, axes[a][0]) for a in range(dim)] for _ in range(rng.randrange(0, 4))]
                ws = [rng.choice([1, 2]) for _ in rs]
                try:
                    arr = np.array(rs, dtype=float).reshape(-1, dim)
                    if rng.random() < 0.5 and len(rs):
                        h.fill_n(arr.T, weights=np.array(ws, dtype=np.int64), columns=True)
                    else:
                        h.fill_n(arr, weights=np.array(ws, dtype=np.int64))
                except Exception as ex:
                    raised.append({"program": p, "call": "fill_n", "rows": [[repr(v) for v in r] for r in rs], "raised": f"{type(ex).__name__}: {ex}"})
                    break
                steps.append(("filln", rs, ws, None, snapshot(h)))
        programs.append({"dim": dim, "axes": [a[0] for a in axes], "rincl": rincl, "keep": keep, "steps": steps,
                         "spelled": "objects" if as_objects else "edges"})
    return programs, raised


def snapshot(h):
    return {"freq": [float(v) for v in np.asarray(h.frequencies).ravel()], "err2": [float(v) for v in np.asarray(h.errors2).ravel()],
            "missed": float(h.missed)}


def abstract(programs):
    events, meta = [], []
    for pi, prog in enumerate(programs):
        dim = prog["dim"]
        ranks = []
        for a in range(dim):
            floats = {v for pr in prog["axes"][a] for v in pr}
            for (_op, rows, _ws, _r, _s) in prog["steps"]:
                floats.update(r[a] for r in rows if r[a] == r[a])
            ranks.append({v: i + 1 for i, v in enumerate(sorted(floats))})
        bins = [[[ranks[a][lft], ranks[a][rgt]] for (lft, rgt) in prog["axes"][a]] for a in range(dim)]
        for (op, rows, ws, ret, snap) in prog["steps"]:
            def iv(x):
                if float(x) != int(x):
                    raise MachineryError("non-integral content in a trace with integer weights")
                return int(x)
            ev = {"op": op, "bins": bins, "rincl": prog["rincl"], "keep": prog["keep"],
                  "batch": [[[NAN_POS if r[a] != r[a] else ranks[a][r[a]] for a in range(dim)], int(w)] for r, w in zip(rows, ws)],
                  "freq": [iv(v) for v in snap["freq"]], "err2": [iv(v) for v in snap["err2"]], "missed": iv(snap["missed"])}
            if op == "fill":
                ev["ret"] = NONE_RET if ret is None else [int(v) for v in ret]
            events.append(ev)
            meta.append({"program": pi, "call": op, "dim": dim, "spelled": prog["spelled"], "rincl": prog["rincl"], "axes": prog["axes"],
                         "rows": [[repr(v) for v in r] for r in rows], "weights": ws})
    return events, meta


def run_part(ctx, tier, seed_offset=31):
    n_prog = 250 if tier == "quick" else 4000
    programs, raised = record_programs(ctx.seed + seed_offset, n_prog)
    for r in raised[:5]:
        ctx.add_violation({"property": ctx.prop, "spec": "TraceHistND", "action": r["call"], "tag": f"TN/{r['call']}/raised", "fields": ["accepted"],
                           "detail": {"raised": r["raised"]}, "call": r})
    events, meta = abstract(programs)
    total_events, total_matched, rounds = len(events), 0, 0
    while True:
        rounds += 1
        sc = scratch_dir(ctx.prop + "TN")
        path = os.path.join(sc, "trace.ndjson")
        with open(path, "w") as f:
            for ev in events:
                f.write(json.dumps(ev) + "\n")
        res = run_tlc("TraceHistND", workers=1, env={"TRACE_FILE": path}, coverage=False, scratch=sc, timeout=2500)
        shutil.rmtree(sc, ignore_errors=True)
        matched = res.depth - 1
        ctx.states += res.distinct
        ctx.transitions += res.generated
        ctx.tlc_runs.append({"module": "TraceHistND", "events": len(events), "matched": matched, "ok": res.ok, "wall_s": round(res.wall_s, 1)})
        if not res.ok:
            raise MachineryError("TraceHistND: TLC reports an invariant violation on a recorded trace:\n" + res.stdout[-1500:])
        for m in meta[:matched]:
            key = f"TN/{m['call']}/d{m['dim']}/{m['spelled']}"
            ctx.tags[key] = ctx.tags.get(key, 0) + 1
        total_matched += matched
        ctx.traces += len({m["program"] for m in meta[:matched]})
        if matched >= len(events):
            break
        # a rejected event: report it, drop the rest of that program and go on with the programs after it, so that the
        # remainder of the recording is examined as well
        ctx.add_violation({"property": ctx.prop, "spec": "TraceHistND", "action": events[matched]["op"], "tag": f"TN/{events[matched]['op']}/rejected",
                           "fields": ["trace"], "detail": {"rejected_event": events[matched]}, "call": meta[matched]})
        bad_prog = meta[matched]["program"]
        rest = [(e, m) for e, m in zip(events[matched:], meta[matched:]) if m["program"] != bad_prog]
        if not rest or rounds >= 6:
            break
        events, meta = [e for e, _m in rest], [m for _e, m in rest]
    ctx.extra["trace_validation_histnd"] = {"programs_recorded": len(programs), "events": total_events, "events_matched_by_spec": total_matched,
                                            "validation_rounds": rounds}
