"""C09 - projections are exact marginals."""
from lib.a_nd import NDAdapter
from lib.embed import POS, WTS
from lib.runner import CheckContext

VIEW = {"accepted", "refused", "class", "bins", "freq", "err2", "total", "names", "live", "missed"}
REQ = ["FromArrays", "Construct", "Project", "ProjectAgain", "ProjectRefused", "Transpose", "TransposeAgain", "Accumulate"]


def run(tier, seed):
    ctx = CheckContext("C09", tier, seed)
    ctx.invariants = ["ProjectionLaws", "ProjectionEqualsDirect", "ShapesMatch", "SourceUntouched"]
    cfg = "MC_HistND_c09q" if tier == "quick" else "MC_HistND_c09t"
    _res, g = ctx.model_check(cfg, required_actions=REQ)
    combos = [("dyadic", "int", 0), ("ulp", "half", 1), ("dyadic", "int", 2)]
    if tier == "thorough":
        combos += [("decimal", "int", 2), ("neg", "float1", 1)]
    for pe, we, sp in combos:
        ctx.replay(g, NDAdapter(POS[pe], WTS[we], spelling=sp), VIEW, label=f"{pe}/{we}/sp{sp}",
                   edge_budget=60000 if tier == "quick" else 300000)
    # narrow integer contents: every cell fits int16 / int32, the sums along an axis do not (accumulate, projections)
    for we in ("narrow16", "narrow32"):
        ctx.replay(g, NDAdapter(POS["dyadic"], WTS[we], spelling=1), VIEW - {"err2"}, first_actions={"FromArrays"}, label=f"dyadic/{we}/sp1",
                   edge_budget=30000 if tier == "quick" else 150000)
    # projections of the transformed classes (their own override of projection): marginal contents and classes as in C15, plus the
    # scaled-projection relation that ties the squared errors to the same sums
    from lib.a_special import SpecialAdapter
    _r, gs = ctx.model_check("MC_Special_q", required_actions=["Project"])
    ctx.replay(gs, SpecialAdapter((0, 2, 5, 7), (-3, 0, 2, 5), 8, 4, 1.0, False, 1), {"all"}, label="transformed-projections",
               edge_budget=30000 if tier == "quick" else 120000)
    ctx.assumptions = ["every cell of the array-built parents holds a distinct content (positional code), so a reduction over a wrong axis changes the result"]
    return ctx.finish("parents of shape (2,3), (1,2,3), (2,1,2,3) with distinct cell contents and parents built from rows; TLC enumerates "
                      "every projection onto every ordered selection of 1..3 axes (by index or by name), projections of projections, "
                      "T, T.T, accumulate per axis and the refused axis lists; contents, errors, bins, axis names, class and the "
                      "untouched parent are compared after each call")
