"""Engine T for C04: record real executions on raw floats, let TLC validate them against PhystAdaptive."""
from __future__ import annotations

import json
import math
import os
import random
import re
import shutil

import numpy as np

from lib.a_adaptive import GridEmb
from lib.tlc import MachineryError, run_tlc, scratch_dir

WIDTHS = [1.0, 0.5, 0.1, 0.2, 0.3, 0.7, 1 / 3, 2.5, 1e-3, 7.0, 0.05, 1.1, 1e5, 0.6]
SHIFTS = [0.0, 0.0, 0.0, 0.5, 0.25, 0.05]


def rand_value(rng, g: GridEmb):
    k = rng.choice([-3, -2, -1, 0, 1, 2, 3, 5, 8, 17, 29, 33, -17, 100, -50, 43, 81, 86, 91, 162]) if rng.random() < 0.6 else rng.randrange(-200, 200)
    kind = rng.randrange(7)
    if kind == 0:
        return round(k * g.w + g.s, 10)                    # decimal literal such as 1.7
    if kind == 1:
        return g.edge(k)
    if kind == 2:
        return math.nextafter(g.edge(k), -math.inf)
    if kind == 3:
        return math.nextafter(g.edge(k), math.inf)
    if kind == 4:
        return k * g.w + g.s + rng.random() * g.w
    if kind == 5:
        return float(np.float64(k) * np.float64(g.w)) + g.s
    return round((k + rng.choice([0.1, 0.5, 0.9])) * g.w + g.s, 8)


def alpha(h, grids):
    """Abstract state of an adaptive histogram: per-axis (tmin, count) on the float grid and non-zero cells."""
    dim = h.ndim
    edges = [h.numpy_bins] if dim == 1 else h.edges
    axes = []
    for a in range(dim):
        e = np.asarray(edges[a]).ravel()
        g = grids[a]
        if len(e) < 2:
            axes.append([0, 0])
            continue
        k0 = g.index_of(float(e[0]), int(math.floor((float(e[0]) - g.s) / g.w)))
        if k0 is None or g.edge(k0) != float(e[0]):
            return None, f"first edge {float(e[0])!r} of axis {a} is not on the grid"
        for i in range(len(e)):
            if g.edge(k0 + i) != float(e[i]):
                return None, f"edge {float(e[i])!r} of axis {a} != origin + {k0 + i}*width"
        axes.append([k0, len(e) - 1])
    f = np.asarray(h.frequencies)
    e2 = np.asarray(h.errors2)
    cont = []
    for ix in np.ndindex(*f.shape):
        if f[ix] != 0 or e2[ix] != 0:
            fv, ev = float(f[ix]), float(e2[ix])
            if fv != int(fv) or ev != int(ev):
                return None, "non-integral content"
            cont.append([[axes[a][0] + ix[a] for a in range(dim)], int(fv), int(ev)])
    if dim == 1:
        missed = float(h.underflow) + float(h.overflow)
    else:
        missed = float(h.missed)
    if missed != missed:
        missed = -1
    return {"axes": axes, "cont": cont, "missed": int(missed)}, None


def record_programs(seed, n_programs, max_ops, only_construct=False):
    import physt
    rng = random.Random(seed)
    events, meta = [], []
    direct = []
    for p in range(n_programs):
        if only_construct or rng.random() < 0.4:
            # data-derived, possibly non-adaptive binnings: fixed_width / pretty / integer must cover their data
            method = rng.choice(["fixed_width", "pretty", "integer"])
            g0 = GridEmb(rng.choice([1.0, 0.5, 0.3]) if method == "integer" else rng.choice(WIDTHS), 0.0)
            data = [rand_value(rng, g0) for _ in range(rng.randrange(1, 6))]
            kw = {}
            if method == "fixed_width":
                kw["bin_width"] = g0.w
            elif method == "pretty":
                kw["bin_count"] = rng.choice([2, 5, 10])
                if len(set(data)) < 2:
                    data.append(data[0] + g0.w)
            elif rng.random() < 0.5:
                kw["bin_width"] = rng.choice([2, 3])         # "group bin_width integers into one bin"
            adaptive = rng.random() < 0.3
            call = {"program": p, "call": f"h1(data, {method!r}, adaptive={adaptive})", "kwargs": kw, "points": [[repr(v)] for v in data]}
            try:
                h = physt.h1(np.array(data), method, adaptive=adaptive, **kw)
            except Exception as ex:      # refusing is not wrong; it is just not a recorded execution
                continue
            bd = h.binning.to_dict()
            # the rule of the method: the width asked for; integer bins have half-integer edges (every integer strictly inside a
            # bin, bin_width integers per bin), fixed_width bins lie on the multiples of the width
            want_w = kw.get("bin_width", 1) if method in ("fixed_width", "integer") else None
            want_s = 0.5 if method == "integer" else (0.0 if method == "fixed_width" else None)
            if (want_w is not None and bd["bin_width"] != want_w) or (want_s is not None and (bd["bin_shift"] or 0.0) % bd["bin_width"] != want_s % bd["bin_width"]):
                direct.append({"call": call, "error": {"fields": ["rule"], "detail": {"expected": {"bin_width": want_w, "bin_shift": want_s},
                                                                                   "observed": {"bin_width": bd["bin_width"], "bin_shift": bd["bin_shift"]}}}})
                continue
            g = GridEmb(bd["bin_width"], bd["bin_shift"])
            st, err = alpha(h, [g])
            if err is not None:
                direct.append({"call": call, "error": err})
                continue
            cells = [[g.index_of(v, int(math.floor((v - g.s) / g.w)))] for v in data]
            events.append(dict(op="construct", dim=1, cells=cells, ws=[1] * len(data), **st))
            meta.append(call)
            continue
        dim = rng.choice([1, 1, 2])
        grids = [GridEmb(rng.choice(WIDTHS), rng.choice(SHIFTS)) for _ in range(dim)]
        kw = {"bin_width": grids[0].w} if dim == 1 else {"bin_width": [g.w for g in grids]}
        if any(g.s for g in grids):
            kw["bin_shift"] = grids[0].s if dim == 1 else [g.s for g in grids]
        h = physt.h1(None, "fixed_width", adaptive=True, **kw) if dim == 1 else physt.h(None, "fixed_width", dim=dim, adaptive=True, **kw)
        st, err = alpha(h, grids)
        events.append(dict(op="new", dim=dim, cells=[], ws=[], **st))
        meta.append({"program": p, "grids": [g.name for g in grids], "call": "new"})
        for _ in range(rng.randrange(1, max_ops + 1)):
            single = rng.random() < 0.5
            n = 1 if single else rng.randrange(0, 4)
            if not single and n == 0 and not st["cont"]:
                n = 1     # empty batch on a bin-less histogram: known finding C04-empty-batch-no-bins
            pts = [[rand_value(rng, grids[a]) for a in range(dim)] for _ in range(n)]
            ws = [rng.choice([1, 1, 2, 3]) for _ in range(n)]
            cells = []
            for pt in pts:
                cells.append([grids[a].index_of(pt[a], int(math.floor((pt[a] - grids[a].s) / grids[a].w))) for a in range(dim)])
            call = {"program": p, "grids": [g.name for g in grids], "points": [[repr(v) for v in pt] for pt in pts], "weights": ws}
            if single:
                call["call"] = "fill"
                h.fill(pts[0][0] if dim == 1 else pts[0], ws[0])
            else:
                call["call"] = "fill_n"
                arr = np.array([pt[0] for pt in pts], dtype=float) if dim == 1 else np.array(pts, dtype=float).reshape(-1, dim)
                h.fill_n(arr, weights=np.array(ws, dtype=np.int64) if n else None)
            st, err = alpha(h, grids)
            if err is not None:
                direct.append({"call": call, "error": err})
                break
            events.append(dict(op="fill" if single else "filln", dim=dim, cells=cells, ws=ws, **st))
            meta.append(call)
    return events, meta, direct


def run_part(ctx, tier, only_construct=False):
    n_prog = 400 if tier == "quick" else 6000
    events, meta, direct = record_programs(ctx.seed + 4, n_prog, 5 if tier == "quick" else 7, only_construct=only_construct)
    for dv in direct:
        ctx.add_violation({"property": ctx.prop, "spec": "TraceAdaptive", "action": dv["call"]["call"], "tag": "alpha/edge-off-grid",
                           "fields": ["bins"], "detail": dv["error"], "call": dv["call"]})
    sc = scratch_dir("C04T")
    path = os.path.join(sc, "trace.ndjson")
    with open(path, "w") as f:
        for ev in events:
            f.write(json.dumps(ev) + "\n")
    try:
        res = run_tlc("TraceAdaptive", workers=1, env={"TRACE_FILE": path}, coverage=False, scratch=sc, timeout=1500)
    finally:
        pass
    matched = res.depth - 1
    ctx.states += res.distinct
    ctx.transitions += res.generated
    ctx.tlc_runs.append({"module": "TraceAdaptive", "events": len(events), "matched": matched, "ok": res.ok, "wall_s": round(res.wall_s, 1)})
    ctx.extra["trace_validation"] = {"programs": n_prog, "events": len(events), "events_matched_by_spec": matched}
    ctx.traces += sum(1 for e in events[:matched] if e["op"] == "new")
    for m in meta[1:4]:
        if len(ctx.samples) < 14:
            ctx.samples.append({"recorded_call": m})
    for e in events[:matched]:
        key = f"T/{e['op']}/d{e['dim']}/n{len(e['cells'])}"
        ctx.tags[key] = ctx.tags.get(key, 0) + 1
    if not res.ok:
        shutil.rmtree(sc, ignore_errors=True)
        raise MachineryError("TraceAdaptive: TLC reports an invariant violation on a recorded trace:\n" + res.stdout[-1500:])
    if matched < len(events):
        bad = events[matched]
        ctx.add_violation({"property": ctx.prop, "spec": "TraceAdaptive", "action": bad["op"], "tag": f"T/{bad['op']}/rejected",
                           "fields": ["trace"], "detail": {"rejected_event": bad, "previous_state": events[matched - 1] if matched else None},
                           "call": meta[matched]})
    shutil.rmtree(sc, ignore_errors=True)
