"""./check selftest: seeded changes must be caught, semantic no-ops must stay silent (tools/selftest.py)."""
import subprocess
import sys
import os


def run(tier, seed):
    tool = os.path.join(os.path.dirname(os.path.dirname(os.path.abspath(__file__))), "tools", "selftest.py")
    return subprocess.call([sys.executable, tool] + (["--noops"] if tier == "quick" else []))
