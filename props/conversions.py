"""Conversions part of C17: xarray Dataset, pandas Series / DataFrame / IntervalIndex, Geant4 CSV.

The subjects are the 1-D histogram records of the PhystIO model (spec/MC_IO_*.tla): every subject is converted and
converted back (where an inverse exists) and bins, contents, errors and under/overflow are compared with the subject."""
import os
import tempfile

import numpy as np

from lib.a_io import IOAdapter, same_bits
from lib.a_pool import EXC
from lib.embed import POS


def _viol(ctx, tag, detail, call):
    if ctx.findings.match("C17", "PhystIO", "Convert", tag, ["conversion"]) is not None:
        return
    ctx.add_violation({"property": "C17", "spec": "PhystIO", "action": "Convert", "tag": tag, "fields": ["conversion"], "detail": detail, "call": call})


def run_part(ctx, tier):
    import pandas as pd
    from physt.compat import pandas as ppd  # noqa: F401  (registers to_series / to_dataframe)
    from physt.compat import xarray as pxr  # noqa: F401
    from physt.compat.geant4 import load_csv
    from physt.types import Histogram1D
    cfg = "MC_IO_q" if tier == "quick" else "MC_IO_t"
    _res, g = ctx.model_check(cfg, required_actions=["Pick"])
    subjects = []
    for lab, dst in g.out[g.init[0]]:
        if lab[0] == "Pick" and lab[1][0].get("cls") == "Histogram1D":
            subjects.append(lab[1][0])
    n = 0
    for pe_name, fscale in (("decimal", 0.1), ("ulp", 1.0)):
        ad = IOAdapter(POS[pe_name], 0, fscale)
        for s in subjects:
            h = ad._hist(s)
            kind = ad._kind(s)
            call = {"subject": kind, "embedding": pe_name}
            # xarray
            try:
                ds = h.to_xarray()
                h2 = Histogram1D.from_xarray(ds)
                ok = same_bits(np.asarray(h2.bins), np.asarray(h.bins)) and np.array_equal(h2.frequencies, h.frequencies) \
                    and np.array_equal(h2.errors2, h.errors2) and bool(h2.keep_missed) == bool(h.keep_missed)
                for a in ("underflow", "overflow", "inner_missed"):
                    x, y = float(getattr(h, a)), float(getattr(h2, a))
                    ok = ok and ((x != x and y != y) or x == y)
                n += 1
                ctx.tags["Convert/xarray/" + kind] = 1
                if not ok:
                    _viol(ctx, "Convert/xarray", {"original": repr(h), "back": repr(h2), "under": [float(h.underflow), float(h2.underflow)]}, call)
            except EXC as ex:
                _viol(ctx, "Convert/xarray", f"{type(ex).__name__}: {ex}", call)
            # pandas
            try:
                ser, df = h.to_series(), h.to_dataframe()
                b2 = ppd.index_to_binning(ser.index)
                ok = np.array_equal(ser.values, h.frequencies) and np.array_equal(df["frequency"].values, h.frequencies) \
                    and np.array_equal(df["error"].values, h.errors) and same_bits(np.asarray(b2.bins, dtype=float), np.asarray(h.bins, dtype=float)) \
                    and ppd.binning_to_index(h.binning).closed == "left"
                n += 1
                ctx.tags["Convert/pandas/" + kind] = 1
                if not ok:
                    _viol(ctx, "Convert/pandas", {"series": ser.to_dict().__repr__()[:300], "bins_back": np.asarray(b2.bins).tolist()}, call)
            except EXC as ex:
                _viol(ctx, "Convert/pandas", f"{type(ex).__name__}: {ex}", call)
    # Geant4 CSV: documents generated from integer data (axis "fixed n min max"; rows: underflow, n bins, overflow)
    for (nb, lo, hi, freq, err2, under, over) in [(3, 0.0, 6.0, [1, 0, 5], [1, 0, 7], 2, 4), (1, -1.0, 1.0, [9], [11], 0, 0),
                                                    (4, 0.5, 2.5, [1, 2, 3, 4], [2, 3, 4, 5], 1, 0)]:
        lines = ["#class tools::histo::h1d", "#title test-h", "#dimension 1", f"#axis fixed {nb} {lo} {hi}", "#planes_Sxyw 0",
                 "entries,Sw,Sw2,Sxw0,Sx2w0"]
        # the entries column counts fills, the others are weighted sums: every row carries three different numbers
        rows = [(under + 3, under, under * 2)] + [(f_ + 1, f_, e_) for f_, e_ in zip(freq, err2)] + [(over + 5, over, over * 3)]
        for (e, sw, sw2) in rows:
            lines.append(f"{e},{sw},{sw2},0,0")
        fd, path = tempfile.mkstemp(suffix=".csv")
        os.close(fd)
        try:
            with open(path, "w", encoding="ascii") as f:
                f.write("\n".join(lines) + "\n")
            h = load_csv(path)
            w = (hi - lo) / nb
            gtag = "Convert/geant4/" + ("aligned" if (lo / w) == int(lo / w) else "unaligned")
            ok = h.bin_count == nb and np.allclose(h.numpy_bins, [lo + i * w for i in range(nb + 1)], rtol=1e-15, atol=0) \
                and h.frequencies.tolist() == freq and h.errors2.tolist() == err2 and float(h.underflow) == under and float(h.overflow) == over \
                and h.name == "test-h"
            n += 1
            ctx.tags[f"Convert/geant4/{nb}"] = 1
            if not ok:
                _viol(ctx, gtag, {"bins": np.asarray(h.numpy_bins).tolist(), "freq": h.frequencies.tolist(), "err2": h.errors2.tolist(),
                                             "under": float(h.underflow), "over": float(h.overflow)}, {"csv": lines})
        except EXC as ex:
            w = (hi - lo) / nb
            _viol(ctx, "Convert/geant4/" + ("aligned" if (lo / w) == int(lo / w) else "unaligned"), f"{type(ex).__name__}: {ex}", {"csv": lines})
        finally:
            os.unlink(path)
    ctx.replayed += n
    ctx.extra["conversions_checked"] = n
