"""Engine T for C01 / C03: record real 1-D executions on raw floats, rank-abstract them, let TLC validate them against Hist1D."""
from __future__ import annotations

import json
import math
import os
import random
import shutil

import numpy as np

from lib.tlc import MachineryError, run_tlc, scratch_dir

NAN_POS = 99999
NONE_RET = -7
METHODS = ["edges", "pairs", "int", "numpy", "fixed_width", "pretty", "integer", "quantile", "exponential", "sqrt", "sturges"]


def rand_data(rng, n):
    scale = 10.0 ** rng.choice([-6, -2, 0, 0, 1, 3, 8])
    off = rng.choice([0.0, 0.0, 1.0, -5.0, 1e3]) * scale
    vals = []
    for _ in range(n):
        k = rng.randrange(5)
        if k == 0 and vals:
            vals.append(rng.choice(vals))                      # duplicates
        elif k == 1:
            vals.append(off + round(rng.uniform(0, 10), 1) * scale)   # decimal literals
        else:
            vals.append(off + rng.uniform(0, 10) * scale)
    return vals


def make_bins(rng, data, method):
    """Returns (bins argument, kwargs) for physt.h1."""
    lo, hi = min(data), max(data)
    if method == "edges":
        n = rng.randrange(1, 5)
        cuts = sorted(set([lo - abs(lo) * 0.1 - 1e-3] + [rng.choice(data) for _ in range(n)] + [hi]))
        if len(cuts) < 2:
            cuts = [lo - 1.0, hi + 1.0]
        return np.array(cuts), {}
    if method == "pairs":
        cuts = sorted(set(data))[:6]
        if len(cuts) < 4:
            cuts = [lo - 2.0, lo - 1.0, hi + 1.0, hi + 2.0]
        pairs = [[cuts[i], cuts[i + 1]] for i in range(0, len(cuts) - 1, 2)]
        return np.array(pairs), {}
    if method == "int":
        return rng.randrange(1, 6), {}
    if method in ("numpy", "sqrt", "sturges"):
        return method, ({"bin_count": rng.randrange(1, 6)} if method == "numpy" else {})
    if method == "fixed_width":
        return "fixed_width", {"bin_width": (hi - lo) / rng.choice([1.5, 3, 7]) if hi > lo else 1.0}
    if method == "pretty":
        return "pretty", {"bin_count": rng.choice([2, 4, 9])}
    if method == "integer":
        return "integer", {}
    if method == "quantile":
        return "quantile", {"bin_count": rng.randrange(1, 4)}
    if method == "exponential":
        return "exponential", {"bin_count": rng.randrange(1, 4)}
    raise RuntimeError(method)


def record_programs(seed, n_programs):
    import physt
    rng = random.Random(seed)
    programs = []
    raised = []
    skipped = 0
    for p in range(n_programs):
        method = rng.choice(METHODS)
        data = rand_data(rng, rng.randrange(2, 9))
        if method == "exponential":
            data = [abs(v) + 1e-3 for v in data]
        if method == "integer" and (max(data) - min(data)) > 30:
            data = [v % 30 for v in data]
        bins, kw = make_bins(rng, data, method)
        weighted = rng.random() < 0.5
        wts = [rng.choice([1, 2, 3]) for _ in data] if weighted else None
        keep = rng.random() < 0.8
        nan_at = rng.randrange(len(data)) if rng.random() < 0.2 else None
        cdata = list(data)
        if nan_at is not None:
            cdata[nan_at] = float("nan")
        calls = []
        try:
            h = physt.h1(np.array(cdata), bins, weights=None if wts is None else np.array(wts, dtype=float), keep_missed=keep, **kw)
        except Exception:
            skipped += 1      # refusing is not wrong; it is just not a recorded execution
            continue
        if h.bin_count > 40:
            skipped += 1      # thousands of bins add nothing for the model and only slow TLC down
            continue
        edges = np.asarray(h.bins, dtype=float)
        if len(edges) > 1 and (edges[1:, 0] != edges[:-1, 1]).any() and np.allclose(edges[1:, 0], edges[:-1, 1], 1.0e-5, 1.0e-8):
            # gaps below numpy.allclose's tolerance: the known finding C01-subtolerance-gap-construct (engine R reports it); a
            # rejected trace could not be told apart from it, so these programs are left to engine R
            skipped += 1
            continue
        steps = [("construct", cdata, wts or [1] * len(cdata), None, snapshot(h))]
        for _ in range(rng.randrange(0, 4)):
            pool = list(data) + edges.ravel().tolist() + [math.nextafter(float(e), math.inf) for e in edges.ravel()[:2]] + \
                [min(data) - 1.0, max(data) + 1.0]
            if rng.random() < 0.5:
                v = rng.choice(pool)
                w = rng.choice([1, 2])
                try:
                    r = h.fill(v, float(w)) if h.dtype.kind == "f" else h.fill(v, w)
                except Exception as ex:     # fill never refuses a finite value
                    raised.append({"program": p, "method": method, "call": "fill", "values": [repr(v)], "weights": [w], "bins": edges.tolist(),
                                   "raised": f"{type(ex).__name__}: {ex}"})
                    break
                steps.append(("fill", [v], [w], r, snapshot(h)))
            else:
                vs = [rng.choice(pool) for _ in range(rng.randrange(0, 4))]
                ws = [rng.choice([1, 2]) for _ in vs]
                try:
                    h.fill_n(np.array(vs, dtype=float), weights=np.array(ws, dtype=float if h.dtype.kind == "f" else np.int64))
                except Exception as ex:     # nor does fill_n
                    raised.append({"program": p, "method": method, "call": "fill_n", "values": [repr(v) for v in vs], "weights": ws, "bins": edges.tolist(),
                                   "raised": f"{type(ex).__name__}: {ex}"})
                    break
                steps.append(("filln", vs, ws, None, snapshot(h)))
        programs.append({"method": method, "bins": edges.tolist(), "keep": keep, "weighted": weighted, "steps": steps, "kw": {k: repr(v) for k, v in kw.items()}})
    return programs, skipped, raised


def snapshot(h):
    def num(v):
        v = float(v)
        return "nan" if v != v else v
    return {"freq": [float(v) for v in h.frequencies], "err2": [float(v) for v in h.errors2], "under": num(h.underflow), "over": num(h.overflow)}


def abstract(programs):
    """Rank abstraction per program; returns the ndjson events and per-event meta."""
    events, meta = [], []
    for pi, prog in enumerate(programs):
        floats = set(np.asarray(prog["bins"], dtype=float).ravel().tolist())
        for (_op, vals, _ws, _r, _s) in prog["steps"]:
            floats.update(v for v in vals if v == v)
        rank = {v: i + 1 for i, v in enumerate(sorted(floats))}
        bins = [[rank[l], rank[r]] for (l, r) in prog["bins"]]
        n = len(bins)
        for (op, vals, ws, ret, snap) in prog["steps"]:
            def iv(x):
                return -99999 if x == "nan" else (int(x) if float(x) == int(x) else None)
            fr, er = [iv(v) for v in snap["freq"]], [iv(v) for v in snap["err2"]]
            if None in fr or None in er or iv(snap["under"]) is None or iv(snap["over"]) is None:
                raise MachineryError("non-integral content in a trace with integer weights")
            ev = {"op": op, "bins": bins, "keep": prog["keep"], "weighted": bool(prog["weighted"]),
                  "batch": [[NAN_POS if v != v else rank[v], int(w)] for v, w in zip(vals, ws)],
                  "freq": fr, "err2": er,
                  "under": iv(snap["under"]) if prog["keep"] else -99999, "over": iv(snap["over"]) if prog["keep"] else -99999}
            if op == "fill":
                ev["ret"] = NONE_RET if ret is None else int(ret)
            events.append(ev)
            meta.append({"program": pi, "method": prog["method"], "kwargs": prog["kw"], "call": op, "values": [repr(v) for v in vals], "weights": ws,
                         "bins": prog["bins"]})
    return events, meta


def run_part(ctx, tier, seed_offset=11):
    n_prog = 300 if tier == "quick" else 5000
    programs, skipped, raised = record_programs(ctx.seed + seed_offset, n_prog)
    for r in raised[:5]:
        ctx.add_violation({"property": ctx.prop, "spec": "TraceHist1D", "action": r["call"], "tag": f"T1/{r['call']}/raised", "fields": ["accepted"],
                           "detail": {"raised": r["raised"]}, "call": r})
    events, meta = abstract(programs)
    total_events, total_matched, rounds = len(events), 0, 0
    while True:
        rounds += 1
        sc = scratch_dir(ctx.prop + "T1")
        path = os.path.join(sc, "trace.ndjson")
        with open(path, "w") as f:
            for ev in events:
                f.write(json.dumps(ev) + "\n")
        res = run_tlc("TraceHist1D", workers=1, env={"TRACE_FILE": path}, coverage=False, scratch=sc, timeout=2500)
        shutil.rmtree(sc, ignore_errors=True)
        matched = res.depth - 1
        ctx.states += res.distinct
        ctx.transitions += res.generated
        ctx.tlc_runs.append({"module": "TraceHist1D", "events": len(events), "matched": matched, "ok": res.ok, "wall_s": round(res.wall_s, 1)})
        if not res.ok:
            raise MachineryError("TraceHist1D: TLC reports an invariant violation on a recorded trace:\n" + res.stdout[-1500:])
        for m in meta[:matched]:
            key = f"T1/{m['call']}/{m['method']}"
            ctx.tags[key] = ctx.tags.get(key, 0) + 1
        total_matched += matched
        ctx.traces += len({m["program"] for m in meta[:matched]})
        if matched >= len(events):
            break
        # a rejected event: report it, drop the rest of that program and validate the programs after it as well
        ctx.add_violation({"property": ctx.prop, "spec": "TraceHist1D", "action": events[matched]["op"], "tag": f"T1/{events[matched]['op']}/rejected",
                           "fields": ["trace"], "detail": {"rejected_event": events[matched]}, "call": meta[matched]})
        bad_prog = meta[matched]["program"]
        rest = [(e, m) for e, m in zip(events[matched:], meta[matched:]) if m["program"] != bad_prog]
        if not rest or rounds >= 6:
            break
        events, meta = [e for e, _m in rest], [m for _e, m in rest]
    if meta and len(ctx.samples) < 14:
        ctx.samples.append({"recorded_call": meta[min(3, len(meta) - 1)]})
    ctx.extra["trace_validation_hist1d"] = {"programs_recorded": len(programs), "refused_constructions_skipped": skipped, "events": total_events,
                                            "events_matched_by_spec": total_matched, "validation_rounds": rounds}
