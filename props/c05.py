"""C05 - adding histograms equals histogramming the combined data."""
from lib.runner import CheckContext
from props.pool import run_pool

VIEW = {"accepted", "refused", "bins", "freq", "err2", "under", "over", "dtype", "name", "keep", "stats", "live"}


def run(tier, seed):
    ctx = CheckContext("C05", tier, seed)
    ctx.invariants = ["SumIsUnion", "Commutative", "Associative", "Independence", "RefusalIsNoOp", "WellFormed"]
    cfg = "MC_HistPool_c05q" if tier == "quick" else "MC_HistPool_c05t"
    emb = [("dyadic", 0), ("ulp", 1)] if tier == "quick" else [("dyadic", 0), ("ulp", 1), ("decimal", 2), ("huge", 0), ("neg", 1)]
    run_pool(ctx, cfg, ["New", "Add", "IAdd", "AddRefused", "IAddRefused", "ForeignRefused", "Copy"], VIEW, emb,
             budget=60000 if tier == "quick" else 400000, free_too=True)
    extra(ctx, tier)
    from props import collection
    collection.run_part(ctx, tier)       # HistogramCollection: create / add / sum / normalize_* / copy / round trip / refusals
    ctx.assumptions = ["contents are exact (integer counts or dyadic weights)", "pool of 3 histograms, histories <= MaxDepth calls"]
    return ctx.finish("TLC enumerates all histories of New/Copy/Add/IAdd and the refused variants over a pool of 3 histograms built from "
                      "the seeds; after every call the public snapshot of ALL live objects is compared with the pool (operands "
                      "included); a case class is (action, operand kinds dtype/keep/den/stats/bins, self-or-other)")


def extra(ctx, tier):
    try:
        from props import adaptive
    except Exception:
        return
    if hasattr(adaptive, "add_part"):
        adaptive.add_part(ctx, tier)
