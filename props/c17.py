"""C17 - every supported input container gives the same histogram as its array."""
from lib.a_containers import ContainerAdapter
from lib.embed import POS, WTS
from lib.runner import CheckContext

VIEW = {"accepted", "bins", "freq", "err2", "under", "over", "total", "axis_name"}


def run(tier, seed):
    ctx = CheckContext("C17", tier, seed)
    ctx.invariants = ["BinContents", "SquaredErrors", "ChunkingIrrelevant"]
    cfg = "MC_Containers_q" if tier == "quick" else "MC_Containers_t"
    _res, g = ctx.model_check(cfg, required_actions=["ConstructFrom"])
    combos = [("dyadic", "float1", 0), ("ulp", "half", 1)] + ([("decimal", "float1", 2), ("huge", "half", 0)] if tier == "thorough" else [])
    for pe, we, sp in combos:
        ctx.replay(g, ContainerAdapter(POS[pe], WTS[we], spelling=sp), VIEW, label=f"{pe}/{we}/sp{sp}")
    nd_part(ctx, tier)
    conv_part(ctx, tier)
    from props import containers_dtype
    containers_dtype.run_part(ctx, tier)      # narrower element types and data-derived bins: still the histogram of the same values
    ctx.assumptions = ["the histogram of every container is compared with the SPECIFICATION's state (which does not depend on the container), "
                       "hence also with the ndarray run", "dask facade takes no weights: weighted chunked input is summed chunk by chunk"]
    return ctx.finish("each (layout, data batch incl. NaN entries and empty data, weighted or not) x 11 containers (list, tuple, iterator, ndarray, "
                      "2-D ndarray, pandas Series, polars Series, Series accessor, DataFrame accessor with weights column, dask array in EVERY "
                      "chunking with both schedulers); ND: pandas/polars DataFrames and dask; conversions xarray / pandas / Geant4")


def nd_part(ctx, tier):
    try:
        from props import containers_nd
    except Exception:
        return
    containers_nd.run_part(ctx, tier)


def conv_part(ctx, tier):
    try:
        from props import conversions
    except Exception:
        return
    conversions.run_part(ctx, tier)
