"""C20 - plots show exactly the histogram's data and never modify it."""
from lib.a_plot import PlotAdapter
from lib.embed import POS
from lib.runner import CheckContext

REQ = ["Pick", "Plot1D", "Plot2D", "PlotRefused", "TimeTicks"]


def run(tier, seed):
    ctx = CheckContext("C20", tier, seed)
    ctx.invariants = ["PlotIsPure", "MarkLaws", "TickLaws"]
    cfg = "MC_Plot_q" if tier == "quick" else "MC_Plot_t"
    _res, g = ctx.model_check(cfg, required_actions=REQ)
    combos = [("dyadic", 1.0)] + ([("neg", 0.5), ("int", 3.0)] if tier == "thorough" else [("neg", 0.5)])
    for n, (pe, vs) in enumerate(combos):
        ctx.replay(g, PlotAdapter(POS[pe], vs, overrides=n % 3), {"all"}, label=f"{pe}/x{vs}/label-overrides{n % 3}")
    if len(combos) < 3:
        ctx.replay(g, PlotAdapter(POS["dyadic"], 1.0, overrides=2), {"all"}, label="dyadic/x1.0/label-overrides2")
    ctx.assumptions = ["marks are extracted from matplotlib artists (patches, lines, collections, images, labels), plotly traces and captured "
                       "stdout; rendering of artists to pixels is trusted to the backend; colours are compared only for monotonicity in the value",
                       "option combinations a backend does not offer (errors in plotly/ascii, density in ascii, image of irregular bins) are skipped"]
    return ctx.finish("1D and 2D subjects (irregular bins, zero bins, single bin) x 9 (backend, kind) pairs x density / cumulative / errors, 2D maps "
                      "with and without show_zero and images; expected marks (bars, points, steps, cells, squared error bars, labels) are computed "
                      "by TLC in exact rationals and compared with the extracted marks; histogram snapshot before/after; refused kinds / "
                      "dimensions / backends; time ticks at the multiples of the unit")
