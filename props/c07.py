"""C07 - every binning schema is well-formed, covers its data and obeys its rule."""
from lib.a_binnings import BinningsAdapter
from lib.embed import POS
from lib.runner import CheckContext
from lib.tlc import Graph

REQ = ["Make", "MakeRefused", "Copy", "Slice", "EqCheck", "AsStatic", "AsFixedWidth", "NumpyRule", "PrettyRule", "QuantileRule", "ExpRule", "CountRule"]
RULES = {"NumpyRule", "PrettyRule", "QuantileRule", "ExpRule", "CountRule"}


def without(g, names):
    out, n = {}, 0
    for s, outs in g.out.items():
        sel = [(lab, d) for (lab, d) in outs if lab[0] not in names]
        out[s] = sel
        n += len(sel)
    return Graph(g.nodes, g.init, out, n)


def run(tier, seed):
    ctx = CheckContext("C07", tier, seed)
    ctx.invariants = ["RepresentationsAgree", "NumpyLaws", "QuantLaws", "CountLaws"]
    cfg = "MC_Binnings_q" if tier == "quick" else "MC_Binnings_t"
    _res, g = ctx.model_check(cfg, required_actions=REQ)
    # the rules are stated on integers: replay them on the affine embeddings; the structural part on every embedding
    ctx.replay(g, BinningsAdapter(POS["int"], 0), {"all"}, label="int/sp0")
    ctx.replay(without(g, {"PrettyRule"}), BinningsAdapter(POS["neg"], 1), {"all"}, label="neg/sp1")
    gs = without(g, RULES)
    for pe, sp in [("ulp", 1), ("decimal", 2), ("huge", 0)] + ([("offset", 2), ("dyadic", 0)] if tier == "thorough" else []):
        ctx.replay(gs, BinningsAdapter(POS[pe], sp), {"all"}, label=f"{pe}/sp{sp}")
    trace_part(ctx, tier)
    # (the `tiny` embedding is not used here: is_regular / is_consecutive take explicit numpy tolerances by design)
    ctx.assumptions = ["doane bin counts, exponential bins with non-integer logs and astropy-backed methods are not decided by the model "
                       "(structural checks only / out of scope)", "numpy.linspace / percentile results are compared with the exact rationals within 4 ulp "
                       "and bit-for-bit with numpy.histogram_bin_edges, the reference the statement names"]
    return ctx.finish("every rising bin array of <= 3 bins over 5 lattice edges (consecutive and gapped) as StaticBinning / NumpyBinning / as_binning: "
                      "pairs, edges, masked edges, bin_count, first/last edge, is_consecutive, is_regular, copy, ==, slices, as_static, "
                      "as_fixed_width compared with the spec record; invalid arrays must be refused; numpy / pretty / quantile / exponential / "
                      "bin-count rules compared with their exact integer/rational definitions")


def trace_part(ctx, tier):
    try:
        from props import trace_c07
    except Exception:
        return
    trace_c07.run_part(ctx, tier)
