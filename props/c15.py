"""C15 - transformed histograms bin points by their true coordinates."""
from lib.a_special import SpecialAdapter
from lib.runner import CheckContext

REQ = ["Facade", "NewEmpty", "Fill", "FillN", "FindBin", "WrongDim", "Project"]
RE, ZE = (0, 2, 5, 7), (-3, 0, 2, 5)


def run(tier, seed):
    ctx = CheckContext("C15", tier, seed)
    ctx.invariants = ["ProjectionIsMarginal", "SectorSymmetry"]
    # the last two: coordinates whose squares leave the float range (2**1200) or vanish (2**-1200) while the points are ordinary
    runs = [("MC_Special_q", 8, 4, 1.0, False, 0), ("MC_Special_q", 8, 4, 0.5, True, 1),
            ("MC_Special_q", 8, 4, 2.0 ** 600, False, 0), ("MC_Special_q", 8, 4, 2.0 ** -600, False, 1)]
    if tier == "thorough":
        runs = [("MC_Special_t", 8, 4, 1.0, False, 0), ("MC_Special_t", 8, 4, 0.25, True, 1), ("MC_Special_t2", 4, 2, 1.0, False, 1),
                ("MC_Special_t", 8, 4, 3.0, False, 0), ("MC_Special_t", 8, 4, 2.0 ** 600, False, 1), ("MC_Special_t", 8, 4, 2.0 ** -600, False, 0)]
    graphs = {}
    for cfg, nphi, nth, scale, nz, sp in runs:
        if cfg not in graphs:
            graphs[cfg] = ctx.model_check(cfg, required_actions=REQ)[1]
        ctx.replay(graphs[cfg], SpecialAdapter(RE, ZE, nphi, nth, scale, nz, sp), {"all"}, label=f"{cfg}/phi{nphi}/theta{nth}/x{scale}/negzero={nz}",
                   edge_budget=60000 if tier == "quick" else 300000)
    ctx.assumptions = ["the true bin is decided by integer predicates (x^2+y^2 vs squared edges, signs, |x| vs |y|, z^2 vs rho^2); points exactly on "
                       "an angular boundary are assigned like the real-number convention (left-closed sectors); accuracy of hypot/atan2 on "
                       "arbitrary reals is not decided by the model"]
    return ctx.finish("integer points in all quadrants/octants, on the axes, diagonals, the cone z = +-rho, the origin, on radial edges "
                      "(Pythagorean), with signed zeros and scalings; eight classes x entry paths facade / fill / fill_n / find_bin x raw or "
                      "already-transformed input; projections (class and marginal contents); wrong-dimensional input must be refused")
