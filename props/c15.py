"""C15 - transformed histograms bin points by their true coordinates."""
from lib.a_special import SpecialAdapter
from lib.runner import CheckContext

REQ = ["Facade", "NewEmpty", "Fill", "FillN", "FindBin", "WrongDim", "Project"]
RE, ZE = (0, 2, 5, 7), (-3, 0, 2, 5)


def run(tier, seed):
    ctx = CheckContext("C15", tier, seed)
    ctx.invariants = ["ProjectionIsMarginal", "SectorSymmetry"]
    # the last two: coordinates whose squares leave the float range (2**1200) or vanish (2**-1200) while the points are ordinary
    runs = [("MC_Special_q", 8, 4, 1.0, False, 0), ("MC_Special_q", 8, 4, 0.5, True, 1),
            ("MC_Special_q", 8, 4, 2.0 ** 600, False, 0), ("MC_Special_q", 8, 4, 2.0 ** -600, False, 1)]
    if tier == "thorough":
        runs = [("MC_Special_t", 8, 4, 1.0, False, 0), ("MC_Special_t", 8, 4, 0.25, True, 1), ("MC_Special_t2", 4, 2, 1.0, False, 1),
                ("MC_Special_t", 8, 4, 3.0, False, 0), ("MC_Special_t", 8, 4, 2.0 ** 600, False, 1), ("MC_Special_t", 8, 4, 2.0 ** -600, False, 0)]
    graphs = {}
    for cfg, nphi, nth, scale, nz, sp in runs:
        if cfg not in graphs:
            graphs[cfg] = ctx.model_check(cfg, required_actions=REQ)[1]
        ctx.replay(graphs[cfg], SpecialAdapter(RE, ZE, nphi, nth, scale, nz, sp), {"all"}, label=f"{cfg}/phi{nphi}/theta{nth}/x{scale}/negzero={nz}",
                   edge_budget=60000 if tier == "quick" else 300000)
    dtype_part(ctx, tier)
    ctx.assumptions = ["the true bin is decided by integer predicates (x^2+y^2 vs squared edges, signs, |x| vs |y|, z^2 vs rho^2); points exactly on "
                       "an angular boundary are assigned like the real-number convention (left-closed sectors); accuracy of hypot/atan2 on "
                       "arbitrary reals is not decided by the model"]
    return ctx.finish("integer points in all quadrants/octants, on the axes, diagonals, the cone z = +-rho, the origin, on radial edges "
                      "(Pythagorean), with signed zeros and scalings; eight classes x entry paths facade / fill / fill_n / find_bin x raw or "
                      "already-transformed input; projections (class and marginal contents); wrong-dimensional input must be refused")


def dtype_part(ctx, tier):
    """The element type of the Cartesian input is no part of the point: a float32 (float16) array and the float64 array of the SAME
    values must reach the same bin through every entry path - also for points a hair away from an axis, where the angle computed
    in the narrow type would round across 0 / 2*pi."""
    import numpy as np
    from physt import special_histograms as S
    r, z = np.array([0.0, 2.0, 5.0, 2.0 ** 30]), np.array([-3.0, 0.0, 2.0, 5.0])
    phi, th = np.linspace(0, 2 * np.pi, 9), np.linspace(0, np.pi, 5)
    classes = {"PolarHistogram": ([r, phi], 2), "AzimuthalHistogram": ([phi], 2), "RadialHistogram": ([r], 2), "SphericalHistogram": ([r, th, phi], 3),
               "SphericalSurfaceHistogram": ([th, phi], 3), "CylindricalHistogram": ([r, phi, z], 3), "CylindricalSurfaceHistogram": ([phi, z], 3)}
    big = 2.0 ** 24
    pts2 = [(1.0, 1.0), (big, -1.0), (big, 1.0), (-big, -1.0), (-big, 1.0), (1.0, -big), (-1.0, big), (3.0, 4.0), (0.0, -2.0)]
    pts3 = [p + (zz,) for p in pts2[:6] for zz in (1.0, -1.0)] + [(1.0, -2.0 ** -24, 1.0), (0.0, 0.0, 2.0)]
    n = 0
    for name, (bs, dim) in classes.items():
        k = getattr(S, name)
        pts = pts2 if dim == 2 else pts3
        for dt in (np.float32, np.float16):
            for p in pts:
                a64 = np.array(p, dtype=np.float64)
                an = a64.astype(dt)
                if not np.array_equal(an.astype(np.float64), a64):
                    continue            # not the same point in the narrow type
                for path in ("find_bin", "fill", "fill_n", "transform"):
                    out = []
                    for arr in (a64, an):
                        h = k(bs[0]) if len(bs) == 1 else k(bs)
                        try:
                            if path == "find_bin":
                                res = h.find_bin(arr)
                            elif path == "fill":
                                res = h.fill(arr)
                            elif path == "fill_n":
                                h.fill_n(arr.reshape(1, -1))
                                res = (np.asarray(h.frequencies).tolist(), float(h.missed) if h.ndim > 1 else (float(h.underflow), float(h.overflow)))
                            else:
                                res = np.asarray(k.transform(arr), dtype=np.float64).tolist()
                        except Exception as ex:
                            res = f"raised {type(ex).__name__}: {ex}"
                        out.append(res if not isinstance(res, np.generic) else res.item())
                    n += 1
                    tag = f"ElementType/{name}/{np.dtype(dt).name}/{path}"
                    ctx.tags[tag] = ctx.tags.get(tag, 0) + 1
                    if repr(out[0]) != repr(out[1]):
                        ctx.add_violation({"property": "C15", "spec": "PhystSpecial", "action": path, "tag": tag, "fields": ["ret"],
                                           "detail": {"float64 input": repr(out[0]), f"{np.dtype(dt).name} input": repr(out[1])},
                                           "call": {"class": name, "point": [repr(v) for v in p], "path": path}})
    ctx.replayed += n
    ctx.extra["element_type_fanout"] = {"calls_compared": n}
