"""C18 - histograms stay well-formed; failed operations change nothing."""
from lib.runner import CheckContext
from props.pool import run_pool, FULL_VIEW

REQ = ["New", "NewRefused", "AddRefused", "IAddRefused", "ISubRefused", "ForeignRefused", "NegRefused", "DivZeroRefused",
       "SetDtypeRefused", "IAdd", "IMul", "Fill", "Merge"]


def run(tier, seed):
    ctx = CheckContext("C18", tier, seed)
    ctx.invariants = ["RefusalIsNoOp", "WellFormed", "IntHoldsInts", "Independence"]
    cfg = "MC_HistPool_c18q" if tier == "quick" else "MC_HistPool_c18t"
    emb = [("dyadic", 0), ("ulp", 1)] if tier == "quick" else [("dyadic", 0), ("ulp", 1), ("decimal", 0)]
    run_pool(ctx, cfg, REQ, FULL_VIEW, emb, budget=60000 if tier == "quick" else 300000, free_too=True)
    for mod in ("props.c02", "props.c04", "props.c10"):
        try:
            m = __import__(mod, fromlist=["x"])
        except Exception:
            continue
        if hasattr(m, "refusal_part"):
            m.refusal_part(ctx, tier)
    from props import collection, adaptive
    adaptive.collection_part(ctx, tier)
    collection.run_part(ctx, tier)       # HistogramCollection: create / add / sum / normalize_* / copy / round trip / refusals
    ctx.assumptions = ["after a refused call every content, squared error and missed counter must equal the pool's unchanged record; "
                       "only the dtype may already be promoted, but reported and actual dtype must agree"]
    return ctx.finish("TLC interleaves refused calls (incompatible / non-histogram operand, negative factor, subtraction below "
                      "zero, division by zero, invalid dtype change, integer histogram with float weights) with accepted ones "
                      "at every position of bounded histories; the adapter requires an exception and an unchanged public snapshot "
                      "of all live objects; WellFormed is checked by TLC on every state and on every real snapshot")
