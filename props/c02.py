"""C02 - ND construction: each row counted once, in the cell that contains it."""
from lib.a_nd import NDAdapter
from lib.embed import POS, WTS
from lib.runner import CheckContext
from props.c01 import only_actions

VIEW = {"accepted", "class", "bins", "freq", "err2", "missed", "total", "names"}
FILL_VIEW = {"accepted", "bins", "freq", "err2", "missed", "total", "ret"}
REQ = ["NewEmpty", "Construct", "Fill", "FillN", "FindBin"]


def run(tier, seed):
    ctx = CheckContext("C02", tier, seed)
    ctx.invariants = ["CellContents", "MissedAccounting", "ShapesMatch"]
    if tier == "thorough":
        ctx.model_check("MC_HistND_c02t", dump=False)          # deep exhaustive run of the invariants
    _res, g = ctx.model_check("MC_HistND_c02q", required_actions=REQ)
    combos = [("dyadic", "int", 0), ("ulp", "half", 1), ("decimal", "npint", 2), ("huge", "int", 1), ("neg", "float1", 0), ("tiny", "half", 2)]
    if tier == "thorough":
        combos += [("offset", "quarter32", 0), ("ulp", "int", 2), ("tiny", "int", 0)]
    sub = only_actions(g, {"NewEmpty", "Construct"})
    for pe, we, sp in combos:
        ctx.replay(sub, NDAdapter(POS[pe], WTS[we], spelling=sp), VIEW, label=f"{pe}/{we}/sp{sp}")
    from props import trace_nd
    trace_nd.run_part(ctx, tier, seed_offset=31)        # engine T: recorded float executions (h / h2 / h3, fill, fill_n) validated by TLC
    ctx.assumptions = ["per-axis binning depends only on the order of values and edges", "axes have different bin counts and edges, so a swapped axis cannot give the same cell"]
    return ctx.finish("every Construct/NewEmpty transition of the HistND state graph (2 asymmetric axes, consecutive and gapped, "
                      "right-edge inclusive or not per axis, rows on/beside every edge, NaN rows, weights) is executed through "
                      "physt.h / h2 (row-wise, column-wise, list input; edge arrays or binning objects) and compared cell by cell")


def fill_part(ctx, tier):
    """ND part of C03: fill / fill_n / find_bin histories."""
    _res, g = ctx.model_check("MC_HistND_c02q", required_actions=REQ)
    combos = [("dyadic", "int", 0), ("ulp", "half", 1)]
    if tier == "thorough":
        combos += [("decimal", "npint", 0), ("huge", "int", 1)]
    for pe, we, sp in combos:
        ctx.replay(g, NDAdapter(POS[pe], WTS[we], spelling=sp), FILL_VIEW, label=f"ND:{pe}/{we}/sp{sp}",
                   edge_budget=60000 if tier == "quick" else 300000)
    ctx.replay(g, NDAdapter(POS["neg"], WTS["int"], spelling=3), FILL_VIEW, label="ND:neg/int/sp3(<<)", edge_budget=25000 if tier == "quick" else 100000)
