"""C07, code -> spec direction: binnings derived from random data by fixed_width / pretty / integer are recorded and
validated by TLC against PhystAdaptive (grid aligned, equal width, covering min..max tightly)."""
from props import trace_c04


def run_part(ctx, tier):
    trace_c04.run_part(ctx, tier, only_construct=True)
