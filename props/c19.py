"""C19 - the free-arithmetics switch is scoped, restored and isolated per context."""
import json
import os
import random
import shutil
import subprocess
import sys

from lib import evidence
from lib.runner import CheckContext
from lib.tlc import MachineryError, VERIF, scratch_dir

REQ = ["Enter", "Exit", "Raise", "SetDirect", "Spawn", "Arith", "Finish"]


def values_of(state, default):
    out = {}
    ctx, alive = state["ctx"], state["alive"]
    for e, c in ctx.items():
        if alive[e] == "run":
            out[e] = default if c == "unset" else (c == "on")
    return out


def paths_of(g, n_random, rng, default):
    """An edge cover (every transition on at least one behaviour) plus random behaviours from the initial state."""
    init = g.init[0]
    # every state offers all kinds of arithmetic; the walk keeps three of them per state (all kinds occur thousands of times)
    thin = {}
    for s_, outs in g.out.items():
        ar = [e for e in outs if e[0][0] == "Arith"]
        kinds = sorted({e[0][1][1] for e in ar})
        keep = set(rng.sample(kinds, min(3, len(kinds))))
        thin[s_] = [e for e in outs if e[0][0] != "Arith" or e[0][1][1] in keep]
    g = type(g)(g.nodes, g.init, thin, sum(len(v) for v in thin.values()))
    # shortest path tree
    parent = {init: None}
    order = [init]
    for s in order:
        for lab, d in g.out.get(s, ()):
            if d not in parent:
                parent[d] = (s, lab)
                order.append(d)

    def prefix(s):
        p = []
        while parent[s] is not None:
            s0, lab = parent[s]
            p.append((lab, s))
            s = s0
        return list(reversed(p))
    paths = []
    covered = set()
    for s in order:
        for lab, d in g.out.get(s, ()):
            if (s, lab, d) in covered:
                continue
            p = prefix(s) + [(lab, d)]
            # extend greedily through uncovered edges
            cur = d
            while True:
                nxt = [(l2, d2) for (l2, d2) in g.out.get(cur, ()) if (cur, l2, d2) not in covered]
                if not nxt:
                    break
                l2, d2 = nxt[0]
                covered.add((cur, l2, d2))
                p.append((l2, d2))
                cur = d2
            covered.add((s, lab, d))
            paths.append(p)
    for _ in range(n_random):
        cur, p = init, []
        while g.out.get(cur):
            lab, d = rng.choice(g.out[cur])
            p.append((lab, d))
            cur = d
        paths.append(p)
    out = []
    for p in paths:
        out.append([{"action": lab[0], "args": list(lab[1]), "values": values_of(g.nodes[d], default)} for lab, d in p])
    return out


def chains_of(g, default):
    """Behaviours written by tlc -simulate (a forest of chains)."""
    out = []
    for s in g.init:
        p, cur = [], s
        while g.out.get(cur):
            lab, d = g.out[cur][0]
            p.append({"action": lab[0], "args": list(lab[1]), "values": values_of(g.nodes[d], default)})
            cur = d
        if p:
            out.append(p)
    return out


def run(tier, seed):
    ctx = CheckContext("C19", tier, seed)
    ctx.invariants = ["Isolation", "StackShape", "Restored", "NoCrossTalk"]
    rng = random.Random(seed)
    total_paths = total_steps = 0
    # design level, unbounded: TLAPS proves the four properties for any number of executions, nesting depth and history
    # length (spec/PhystConfigProof.tla, inductive invariant Linked); TLC and the runtime executions below are bounded
    from lib.tlaps import run_tlapm
    ctx.extra["tlaps"] = run_tlapm("PhystConfigProof")
    suffix = "q" if tier == "quick" else "t"
    for kind in ("thread", "task"):
        for dflag, env in ((False, None), (False, "0"), (True, "1")):
            cfg = f"MC_Config_{kind}{'T' if dflag else 'F'}_{suffix}"
            if tier == "quick":
                _res, g = ctx.model_check("PhystConfig", cfg, required_actions=REQ)
                paths = paths_of(g, 150, rng, dflag)
            else:
                # the deep model is checked by TLC only (its graph is too large to walk edge by edge); the runtime executes an edge
                # cover of the mid model (nesting 3, 5 steps) and TLC-simulated behaviours of the deep one (nesting 3, 7 steps)
                ctx.model_check("PhystConfig", cfg, dump=False)
                _res, g = ctx.model_check("PhystConfig", cfg[:-1] + "m", required_actions=REQ)
                paths = paths_of(g, 1000, rng, dflag)
                gs = ctx.simulate("PhystConfig", cfg, num=1500, depth=8)
                paths += chains_of(gs, dflag)
            sc = scratch_dir("C19")
            inp, outp = os.path.join(sc, "in.json"), os.path.join(sc, "out.json")
            json.dump({"kind": kind, "paths": paths, "names": ["main", "a", "b", "c"], "root": "main"}, open(inp, "w"))
            e = dict(os.environ)
            e.pop("PHYST_FREE_ARITHMETICS", None)
            if env is not None:
                e["PHYST_FREE_ARITHMETICS"] = env
            p = subprocess.run([sys.executable, os.path.join(VERIF, "lib", "c19_exec.py"), inp, outp], env=e,
                               capture_output=True, text=True, timeout=3000)
            if p.returncode != 0 or not os.path.exists(outp):
                shutil.rmtree(sc, ignore_errors=True)
                raise MachineryError("c19 executor failed: " + p.stderr[-2000:])
            res = json.load(open(outp))
            shutil.rmtree(sc, ignore_errors=True)
            if res["default_seen"] != dflag:
                ctx.add_violation({"property": "C19", "spec": "PhystConfig", "action": "Init", "tag": f"default/{env}", "fields": ["default"],
                                   "detail": {"expected": dflag, "observed": res["default_seen"], "env": env}, "call": {"env": env}})
            total_paths += len(paths)
            total_steps += res["steps"]
            ctx.traces += len(paths)
            ctx.replayed += res["steps"]
            key = f"{kind}/env={env}"
            ctx.tags[key] = len(paths)
            for pth in paths:
                for st in pth:
                    k2 = f"{kind}/{st['action']}" + (f"/{st['args'][1]}" if st["action"] == "Arith" else "")
                    ctx.tags[k2] = ctx.tags.get(k2, 0) + 1
            if len(ctx.samples) < 6 and paths:
                ctx.samples.append({"kind": kind, "env": env, "behaviour": [f"{s['action']}{tuple(s['args'])}" for s in paths[len(paths) // 2]]})
            for f in res["results"][:5]:
                pth = paths[f["path"]]
                ctx.add_violation({"property": "C19", "spec": "PhystConfig", "action": pth[f["step"]]["action"] if f["step"] >= 0 else "?",
                                   "tag": f"{kind}/env={env}/{f['what'].split(' ')[0]}", "fields": ["value"],
                                   "detail": f, "call": {"kind": kind, "env": env,
                                                         "behaviour": [f"{s['action']}{tuple(s['args'])}" for s in pth[:f['step'] + 1]]}})
    ctx.exhaustive = False
    ctx.extra["behaviours_executed"] = total_paths
    ctx.assumptions = ["threads are stepped by a baton (one public step at a time), asyncio tasks by per-task command queues; after every step "
                       "EVERY running execution observes config.free_arithmetics and is compared with the specification's value",
                       "the process default is exercised in separate interpreters with PHYST_FREE_ARITHMETICS unset / 0 / 1"]
    return ctx.finish("TLC explores all interleavings of 3 executions (nesting <= MaxNest, <= MaxDepth steps) for threads and for asyncio tasks and "
                      "both defaults; an edge cover of the state graph plus random behaviours is executed in the real runtime with real "
                      "nested with-blocks and real exceptions unwinding k levels; a class is (kind, env, action)")
