"""C04 - adaptive fixed-width histograms never lose a value when bins grow."""
from lib.a_adaptive import AdaptiveAdapter, GridEmb
from lib.runner import CheckContext

VIEW = {"accepted", "refused", "bins", "freq", "err2", "missed", "total", "ret", "adaptive", "live", "dtype_consistent"}
REQ = ["NewEmpty", "NewFilled", "Fill", "FillN", "FillRefused"]

GRIDS_QUICK = [
    [GridEmb(1.0), GridEmb(0.5)],
    [GridEmb(0.5, 0.25), GridEmb(2.5)],
    [GridEmb(0.1), GridEmb(0.3)],
    [GridEmb(1.0, 0.5), GridEmb(0.7)],
]
GRIDS_MORE = [
    [GridEmb(1 / 3), GridEmb(1e-3)],
    [GridEmb(7.0), GridEmb(0.2)],
    [GridEmb(0.1, 0.05), GridEmb(1e6)],
    [GridEmb(2.0 ** -20), GridEmb(3.0)],
]


def run(tier, seed):
    ctx = CheckContext("C04", tier, seed)
    ctx.invariants = ["NothingMissed", "TightSpan", "EqualsFixed", "ContentsStayPut"]
    # design level, unbounded: the axis algebra (grown axis = hull of the old range and the new index, earlier bins stay,
    # order of arrival irrelevant) is proved by TLAPS for all integers (spec/PhystAdaptiveProof.tla over spec/PhystAxis.tla)
    from lib.tlaps import run_tlapm
    ctx.extra["tlaps"] = run_tlapm("PhystAdaptiveProof")
    if tier == "thorough":
        ctx.model_check("MC_Adaptive_c04t", dump=False)        # deep exhaustive run (far index 50, one more call)
    _res, g = ctx.model_check("MC_Adaptive_c04q", required_actions=REQ)
    grids = GRIDS_QUICK + (GRIDS_MORE if tier == "thorough" else [])
    for n, gr in enumerate(grids):
        ad = AdaptiveAdapter(gr, spelling=n, wscale=(1, 1) if n % 2 == 0 else (1, 2))
        ctx.replay(g, ad, VIEW, label="/".join(x.name for x in gr), edge_budget=40000 if tier == "quick" else 200000)
    factories_part(ctx, tier)
    ctx.assumptions = ["a value is represented by its float-grid index k (edge_k <= v < edge_k+1 with edge_k computed exactly as "
                       "FixedWidthBinning.numpy_bins does) and a position class: on the left edge, mid-bin, one ulp below the right edge"]
    return ctx.finish("all fill / fill_n histories (<= MaxDepth calls) over grid indices {-2..3}, position classes L/M/H, weights, 1 and 2 axes, "
                      "started empty or pre-filled, enumerated by TLC and executed for each (width, shift) pair; after each call every "
                      "edge must equal origin + k*width as the binning computes it, contents are compared per absolute grid cell, "
                      "under/overflow/missed must be 0 and fill must return the bin of the value")


def factories_part(ctx, tier):
    try:
        from props import trace_c04
    except Exception:
        return
    trace_c04.run_part(ctx, tier)


def refusal_part(ctx, tier):
    """C18: fills that must be refused (wrong number of coordinates, weights of the wrong length) interleaved with accepted
    ones on adaptive histograms: an exception, and nothing - not even the bins - has changed."""
    _res, g = ctx.model_check("MC_Adaptive_c04q", required_actions=REQ)
    for sp in (0, 1):       # the order in which the representations of the bins are read (and cached) differs between the two
        ad = AdaptiveAdapter(GRIDS_QUICK[1], spelling=sp)
        ctx.replay(g, ad, VIEW, label=f"adaptive-refusals/sp{sp}:" + "/".join(x.name for x in GRIDS_QUICK[1]),
                   edge_budget=30000 if tier == "quick" else 100000)
