"""C17, element types: the specification's successor of ConstructFrom does not depend on the container, so for every container the
histogram must equal the one of the plain float64 ndarray holding the same values - also when the container's own element type is
narrower (float32, float16, small integers) and the bins are derived from the data (bin count, fixed width, sqrt rule, quantiles),
where the expected edges cannot be written down on the lattice."""
import random

import numpy as np


def snapshot(h):
    st = h.statistics
    return {"bins": np.asarray(h.bins).tolist(), "freq": np.asarray(h.frequencies).tolist(), "err2": np.asarray(h.errors2).tolist(),
            "under": float(h.underflow), "over": float(h.overflow), "dtype": str(h.dtype),
            "stats": [float(st.weight), float(st.sum), float(st.sum2), float(st.min), float(st.max)]}


def run_part(ctx, tier):
    import pandas as pd
    import polars as pl
    import physt
    rng = random.Random(ctx.seed + 5)
    n_sets = 6 if tier == "quick" else 40
    binspecs = [("count", {"bins": 4}), ("fixed_width", {"bins": "fixed_width", "bin_width": 0.5}), ("sqrt", {"bins": "sqrt"}),
                ("quantile", {"bins": "quantile", "bin_count": 3}), ("edges", {"bins": np.array([0.0, 1.0, 2.5, 4.0])})]
    n = 0
    for _ in range(n_sets):
        size = rng.choice([5, 9, 16])
        base = [round(rng.uniform(0.0, 4.0), 1) for _ in range(size)]          # decimal values: not representable exactly
        weights = [rng.choice([0.5, 1.0, 2.0]) for _ in range(size)]
        for dt in (np.float32, np.float16, np.int16, np.uint8, np.float64):
            vals = np.array(base).astype(dt)          # the values the container really holds
            ref_values = vals.astype(np.float64)
            containers = {"ndarray": vals, "pd.Series": pd.Series(vals, name="col"), "pl.Series": pl.Series("col", vals if dt is not np.float16 else vals.astype(np.float32)),
                          "list": [v.item() for v in vals]}
            if dt is np.float16:
                del containers["pl.Series"]           # polars has no float16
            for bname, bkw in binspecs:
                for weighted in (False, True):
                    kw = dict(bkw)
                    bins = kw.pop("bins")
                    w = np.array(weights) if weighted else None
                    try:
                        ref = snapshot(physt.h1(ref_values, bins, weights=w, **kw))
                    except Exception:
                        continue            # a bin specification refused for this data is refused for every container alike
                    for cname, cont in containers.items():
                        n += 1
                        key = f"Dtype/{cname}/{np.dtype(dt).name}/{bname}/{'w' if weighted else 'u'}"
                        ctx.tags[key] = ctx.tags.get(key, 0) + 1
                        try:
                            got = snapshot(physt.h1(cont, bins, weights=w, **kw))
                        except Exception as ex:
                            got = {"raised": f"{type(ex).__name__}: {ex}"}
                        if got != ref:
                            diff = [k for k in ref if got.get(k) != ref[k]] if "raised" not in got else ["accepted"]
                            ctx.add_violation({"property": "C17", "spec": "PhystContainers", "action": "ConstructFrom", "tag": key, "fields": diff,
                                               "detail": {"expected (float64 ndarray of the same values)": ref, "observed": got},
                                               "call": {"container": cname, "element_type": np.dtype(dt).name, "bins": bname, "weighted": weighted,
                                                        "values": [repr(v) for v in ref_values.tolist()]}})
    ctx.replayed += n
    ctx.extra["element_type_fanout"] = {"constructions_compared": n}
