"""C13 - content dtype is consistent and never loses information."""
from lib.runner import CheckContext
from props.pool import run_pool

VIEW = {"accepted", "refused", "freq", "err2", "under", "over", "dtype", "live"}
REQ = ["New", "NewRefused", "Fill", "FillHalf", "Add", "IAdd", "Sub", "ISub", "Mul", "IMul", "Div", "IDiv", "Normalize", "Merge",
       "SetDtype", "SetDtypeRefused"]


def run(tier, seed):
    ctx = CheckContext("C13", tier, seed)
    ctx.invariants = ["IntHoldsInts", "WellFormed", "RefusalIsNoOp"]
    cfg = "MC_HistPool_c13q" if tier == "quick" else "MC_HistPool_c13t"
    emb = [("dyadic", 0), ("dyadic", 1)] if tier == "quick" else [("dyadic", 0), ("dyadic", 1), ("ulp", 0)]
    run_pool(ctx, cfg, REQ, VIEW, emb, budget=60000 if tier == "quick" else 300000)
    from props import adaptive
    adaptive.dtype_part(ctx, tier)
    ctx.assumptions = ["the dtype rule of every action is the transcription PhystRec.Promote of numpy.promote_types, checked against numpy at start-up",
                       "h.dtype, h.frequencies.dtype and h.errors2.dtype are all compared with the spec's dtype after every call"]
    return ctx.finish("histories (<= MaxDepth) over 7 seed dtypes x {fill int/float weight, +, +=, -, -=, *, /, normalize, merge, set dtype} "
                      "enumerated by TLC; after each call reported dtype, both array dtypes and all values are compared; "
                      "refused dtype changes / integer histogram with float weights must raise and change nothing")
