"""C11 - indexing and slicing follow numpy semantics on the bin grid."""
from lib.a_nd import NDAdapter
from lib.embed import POS, WTS
from lib.runner import CheckContext
from props.pool import run_pool, FULL_VIEW

ND_VIEW = {"accepted", "refused", "class", "bins", "freq", "err2", "total", "names", "live", "missed"}


def run(tier, seed):
    ctx = CheckContext("C11", tier, seed)
    ctx.invariants = ["SliceLaws", "WellFormed", "Independence", "RefusalIsNoOp", "ShapesMatch", "SourceUntouched"]
    cfg = "MC_HistPool_c11q" if tier == "quick" else "MC_HistPool_c11t"
    emb = [("dyadic", 0), ("ulp", 1)] if tier == "quick" else [("dyadic", 0), ("ulp", 1), ("decimal", 0)]
    run_pool(ctx, cfg, ["New", "Slice", "GetBin", "Take", "TakeUnsorted", "IndexRefused"], FULL_VIEW | {"ret"}, emb)
    cfgn = "MC_HistND_c11q" if tier == "quick" else "MC_HistND_c11t"
    _res, g = ctx.model_check(cfgn, required_actions=["FromArrays", "GetItem", "GetCell"])
    for pe, we, sp in [("dyadic", "int", 0), ("ulp", "half", 1)]:
        ctx.replay(g, NDAdapter(POS[pe], WTS[we], spelling=sp), ND_VIEW, label=f"ND:{pe}/{we}/sp{sp}")
    # selections of an adaptive histogram taken before and after it has grown (the selection shows the bins as they are NOW)
    from lib.a_adaptive import AdaptiveAdapter, GridEmb
    _res, ga = ctx.model_check("MC_Adaptive_sliceq", required_actions=["NewFilled", "Fill", "FillN", "SliceA"])
    for sp, grid in ((0, GridEmb(1.0)), (1, GridEmb(0.5, 0.25))):
        ctx.replay(ga, AdaptiveAdapter([grid], spelling=sp), {"accepted", "bins", "freq", "err2", "missed", "total", "live", "adaptive"},
                   label=f"adaptive-slices:{grid.name}/sp{sp}")
    ctx.assumptions = ["PySlice / index normalisation is transcribed in TLA+ (PhystRec.Sliced, HistND.Indexed); slices with an explicit step "
                       "are outside the model (physt refuses them, which the statement allows)"]
    return ctx.finish("1D: every slice start:stop with start, stop in {None, -5..5} on 4-bin, gapped 3-bin and 1-bin histograms (non-empty "
                      "results), every integer index, every mask / index array / list selecting 1..3 positions in increasing order, all "
                      "unsorted or repeated index arrays, refused index expressions; ND: every tuple of per-axis ints / slices on shapes "
                      "(2,3) and (2,3,2) with distinct cell contents")
