"""ND part of C17: DataFrames (pandas, polars), accessors and dask arrays through physt.h / h2, on the HistND Construct transitions."""
import numpy as np

from lib.a_nd import NDAdapter
from lib.a_pool import EXC
from lib.embed import POS, WTS
from props.c01 import only_actions

VIEW = {"accepted", "class", "bins", "freq", "err2", "missed", "total", "names"}


class NDContainerAdapter(NDAdapter):
    name = "HistND"

    def __init__(self, pe, we, container):
        super().__init__(pe, we, spelling=0)
        self.container = container

    def apply(self, real, action, args, pre):
        if action != "Construct":
            return super().apply(real, action, args, pre)
        import pandas as pd
        import polars as pl
        obs = {"exc": None, "ret": None}
        LL, ri, batch, weighted = args
        dim = len(LL)
        rows = self._rows(batch, dim)
        w = self._weights(batch, weighted)
        bins = self._bins_arg(LL, ri)
        cols = [f"ax{i + 1}" for i in range(dim)]
        try:
            c = self.container
            if c == "pd.DataFrame":
                real["h"] = self.physt.h(pd.DataFrame(rows, columns=cols), bins, weights=w)
            elif c == "pl.DataFrame":
                real["h"] = self.physt.h(pl.DataFrame({k: rows[:, i] for i, k in enumerate(cols)}), bins, weights=w)
            elif c == "pd.accessor":
                df = pd.DataFrame(rows, columns=cols)
                real["h"] = df.physt.histogram(bins=bins, weights=w) if dim != 2 else df.physt.h2(bins=bins, weights=w)
            elif c == "pd.h2":
                df = pd.DataFrame(rows, columns=cols)
                real["h"] = self.physt.h2(df[cols[0]], df[cols[1]], bins, weights=w)
            elif c == "dask":
                import dask.array as da
                from physt.compat import dask as pdask
                if len(rows) == 0 or w is not None:
                    real["h"] = self.physt.h(rows, bins, weights=w, axis_names=cols, **({"dim": dim} if len(rows) == 0 else {}))
                else:
                    arr = da.from_array(rows, chunks=(1, dim))
                    real["h"] = pdask.histogramdd(arr, bins, axis_names=cols, dask_method=None)
            else:
                raise RuntimeError("unknown container " + c)
        except EXC as ex:
            if isinstance(ex, RuntimeError) and str(ex).startswith("unknown container"):
                raise
            obs["exc"] = f"{type(ex).__name__}: {ex}"
        return real, obs

    def tag(self, action, args, pre, real=None):
        t = super().tag(action, args, pre, real)
        if action == "Construct":
            LL, ri, batch, weighted = args
            return f"{self.container}/" + t + ("/empty" if not batch else "")
        return t

    def describe(self, action, args, pre):
        d = super().describe(action, args, pre)
        d["container"] = self.container
        return d


def run_part(ctx, tier):
    _res, g = ctx.model_check("MC_HistND_c02q", required_actions=["Construct"])
    sub = only_actions(g, {"Construct"})
    for cont, pe, we in [("pd.DataFrame", "dyadic", "int"), ("pl.DataFrame", "ulp", "half"), ("pd.accessor", "decimal", "int"),
                         ("pd.h2", "dyadic", "half"), ("dask", "dyadic", "int")]:
        ctx.replay(sub, NDContainerAdapter(POS[pe], WTS[we], cont), VIEW, label=f"ND:{cont}/{pe}/{we}")
