"""C03 - incremental filling (fill / fill_n) equals batch construction (1D part: Hist1D; ND part: HistND)."""
from lib.a_hist1d import Hist1DAdapter
from lib.embed import POS, WTS
from lib.runner import CheckContext

VIEW = {"accepted", "bins", "freq", "err2", "under", "over", "ret", "total"}
INVARIANTS = ["EntryPathIrrelevant", "NoKeepNoChange", "FindBinPure", "BinContents", "SquaredErrors", "Accounting"]


def run(tier, seed):
    ctx = CheckContext("C03", tier, seed)
    ctx.invariants = INVARIANTS
    if tier == "thorough":
        ctx.model_check("MC_Hist1D_thorough", dump=False)      # deep exhaustive run of the invariants (too large to replay)
    cfg = "MC_Hist1D_quick" if tier == "quick" else "MC_Hist1D_mid"
    _res, g = ctx.model_check(cfg, required_actions=["NewEmpty", "Construct", "Fill", "FillN", "FindBin"])
    combos = [("dyadic", "int", 0), ("ulp", "half", 1)]
    if tier == "thorough":
        combos += [("decimal", "npint", 2), ("huge", "int", 3), ("offset", "quarter32", 0), ("tiny", "float1", 1)]
    for pe, we, sp in combos:
        ctx.replay(g, Hist1DAdapter(POS[pe], WTS[we], spelling=sp), VIEW, label=f"1D:{pe}/{we}/sp{sp}",
                   edge_budget=60000 if tier == "quick" else 400000)
    # the empty histogram is the emptied copy of a filled one (copy(include_frequencies=False)), filled afterwards
    ctx.replay(g, Hist1DAdapter(POS["dyadic"], WTS["int"], spelling=2), VIEW, first_actions={"NewEmpty"}, label="1D:dyadic/int/sp2(template copy)",
               edge_budget=25000 if tier == "quick" else 100000)
    # unit-weight fills spelled with the operator alias `h << value`
    ctx.replay(g, Hist1DAdapter(POS["neg"], WTS["int"], spelling=3), VIEW, label="1D:neg/int/sp3(<<)", edge_budget=25000 if tier == "quick" else 100000)
    if tier == "thorough":
        # random behaviours of 8 calls (beyond the exhaustive bound), replayed call by call
        gs = ctx.simulate("MC_Hist1D_quick", "MC_Hist1D_sim", num=1500, depth=9)
        for pe, we, sp in [("dyadic", "int", 0), ("ulp", "half", 1), ("decimal", "npint", 2)]:
            ctx.replay(gs, Hist1DAdapter(POS[pe], WTS[we], spelling=sp), VIEW, label=f"1D-sim:{pe}/{we}/sp{sp}")
    from props import trace_h1
    trace_h1.run_part(ctx, tier, seed_offset=23)       # engine T: recorded float executions validated by TLC
    from props import trace_nd
    trace_nd.run_part(ctx, tier, seed_offset=47)       # the same for 2 and 3 axes
    nd_part(ctx, tier)
    ctx.assumptions = ["binning depends only on the order of values and edges (embedding fan-out)",
                       "histories are bounded (see tlc_runs), batches <= 2 (quick) / 3 (thorough) entries"]
    return ctx.finish("all histories NewEmpty|Construct followed by Fill / FillN / FindBin calls up to the depth bound are "
                      "enumerated by TLC; every transition is executed on the real object reached by the same history "
                      "(deep-copied at branch points) and contents, errors, under/overflow and return value compared; "
                      "a case class is (action, position classes, layout kind, keep, dtype kind, weight kind)")


def nd_part(ctx, tier):
    try:
        from props import c02
    except Exception:
        return
    if hasattr(c02, "fill_part"):
        c02.fill_part(ctx, tier)
