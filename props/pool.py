"""Shared drivers for the HistPool specification (C05, C06, C12, C13, C14, C18)."""
from lib.a_pool import PoolAdapter, check_promotion_table
from lib.embed import POS
from lib.tlc import MachineryError

FULL_VIEW = {"accepted", "refused", "bins", "freq", "err2", "under", "over", "dtype", "name", "keep", "stats", "live"}


def run_pool(ctx, cfg, required, view, embeddings, budget=None, free_too=False):
    bad = check_promotion_table()
    if bad:
        raise MachineryError(f"PhystRec.Promote disagrees with numpy.promote_types: {bad[:3]}")
    _res, g = ctx.model_check(cfg, required_actions=required)
    for pe, sp in embeddings:
        ctx.replay(g, PoolAdapter(POS[pe], spelling=sp), view, label=f"{cfg}:{pe}/sp{sp}", edge_budget=budget)
    if free_too:
        # the same behaviours with free arithmetics enabled around every call: nothing but the array / negative-content refusals
        # may depend on the switch
        ctx.replay(g, PoolAdapter(POS["dyadic"], spelling=1, free_all=True), view, label=f"{cfg}:dyadic/sp1/free-arithmetics-on",
                   edge_budget=min(budget or 40000, 40000))
    return g


def stats_part(ctx, tier):
    """C14 on sums, copies and rescaled histograms."""
    cfg = "MC_HistPool_c14q" if tier == "quick" else "MC_HistPool_c14t"
    import os
    from lib.tlc import SPEC_DIR
    if not os.path.exists(os.path.join(SPEC_DIR, cfg + ".cfg")):
        return
    # refused calls (negative factor, array operand, division by zero) are part of the histories: they must leave the statistics alone
    run_pool(ctx, cfg, ["New", "Add", "IAdd", "Copy", "Mul", "IMul", "Div", "Sub", "Fill", "NegRefused", "ForeignRefused"],
             {"accepted", "refused", "stats", "freq", "live"}, [("dyadic", 0), ("neg", 1)], free_too=True)
