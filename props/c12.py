"""C12 - derived histograms are independent of their sources."""
from lib.runner import CheckContext
from props.pool import run_pool, FULL_VIEW

REQ = ["New", "Copy", "CopyEmpty", "Add", "Sub", "Mul", "Div", "Normalize", "Merge", "Slice",
       "Fill", "IAdd", "IMul", "IDiv", "SetDtype", "SetName"]


def run(tier, seed):
    ctx = CheckContext("C12", tier, seed)
    ctx.invariants = ["Independence", "WellFormed", "IntHoldsInts"]
    # sharing between real objects must survive the walk: states are rebuilt by re-executing their history, never deep-copied
    ctx.rebuild_from_history = True
    cfg = "MC_HistPool_c12q" if tier == "quick" else "MC_HistPool_c12t"
    emb = [("dyadic", 0), ("ulp", 1)] if tier == "quick" else [("dyadic", 0), ("ulp", 1), ("neg", 0)]
    run_pool(ctx, cfg, REQ, FULL_VIEW, emb, budget=60000 if tier == "quick" else 300000)
    for mod in ("props.nd_pool", "props.adaptive", "props.c08"):
        try:
            m = __import__(mod, fromlist=["x"])
        except Exception:
            continue
        if hasattr(m, "independence_part"):
            m.independence_part(ctx, tier)
    from props import collection, adaptive
    adaptive.collection_part(ctx, tier)
    collection.run_part(ctx, tier, quick_combos=1, quick_budget=30000)       # HistogramCollection: create / add / sum / normalize_* / copy / round trip / refusals
    ctx.assumptions = ["independence is judged by the public snapshots of all live objects after every step, never by identity of internals"]
    return ctx.finish("every history New -> derive (copy, empty copy, +, -, *, /, normalize, merge_bins, slice) -> mutate either "
                      "object (fill, +=, *=, /=, dtype, name, in-place merge, in-place normalize) enumerated by TLC is executed "
                      "and the snapshot of BOTH objects compared with the pool after each call")
