"""C06 - scaling, division and normalisation are exactly linear."""
from lib.runner import CheckContext
from props.pool import run_pool

VIEW = {"accepted", "refused", "bins", "freq", "err2", "under", "over", "dtype", "name", "keep", "stats", "live"}


def run(tier, seed):
    ctx = CheckContext("C06", tier, seed)
    ctx.invariants = ["MulDivIdentity", "NormalTotal", "MomentsScaleInvariant", "Independence", "RefusalIsNoOp", "WellFormed"]
    cfg = "MC_HistPool_c06q" if tier == "quick" else "MC_HistPool_c06t"
    emb = [("dyadic", 0), ("neg", 1)] if tier == "quick" else [("dyadic", 0), ("neg", 1), ("ulp", 2), ("int", 0)]
    run_pool(ctx, cfg, ["New", "Mul", "IMul", "Div", "IDiv", "Normalize", "NegRefused", "ForeignRefused", "Copy"], VIEW, emb,
             budget=60000 if tier == "quick" else 400000)
    nd_part(ctx, tier)
    ctx.assumptions = ["results whose denominator is a power of two are compared bit-exactly, others (division by 3, "
                       "normalisation) within 16 ulp", "scalars: python int/float, numpy float32/int16"]
    return ctx.finish("TLC enumerates chains of h*c, c*h, h*=c, h/c, h/=c, normalize (copy/inplace, percent) and the refused "
                      "variants on seed histograms (int/float, tracked or untracked missed values, gapped); after each call all "
                      "live objects are compared with the pool: contents c, errors c^2, missed c, bins, dtype, statistics")


def nd_part(ctx, tier):
    try:
        from props import c09
    except Exception:
        return
    if hasattr(c09, "scale_part"):
        c09.scale_part(ctx, tier)
