"""C06 - scaling, division and normalisation are exactly linear."""
from lib.runner import CheckContext
from props.pool import run_pool

VIEW = {"accepted", "refused", "bins", "freq", "err2", "under", "over", "dtype", "name", "keep", "stats", "live"}


def run(tier, seed):
    ctx = CheckContext("C06", tier, seed)
    ctx.invariants = ["MulDivIdentity", "NormalTotal", "MomentsScaleInvariant", "Independence", "RefusalIsNoOp", "WellFormed"]
    cfg = "MC_HistPool_c06q" if tier == "quick" else "MC_HistPool_c06t"
    emb = [("dyadic", 0), ("neg", 1)] if tier == "quick" else [("dyadic", 0), ("neg", 1), ("ulp", 2), ("int", 0)]
    run_pool(ctx, cfg, ["New", "Mul", "IMul", "Div", "IDiv", "Normalize", "NegRefused", "ForeignRefused", "Copy"], VIEW, emb,
             budget=60000 if tier == "quick" else 400000, free_too=True)
    # HistogramCollection: normalize_bins (shares per bin), sum, copy
    run_pool(ctx, "MC_HistPool_collq", ["New", "CollSum", "CollNormBins", "CollCopyFill", "Fill"], VIEW, [("dyadic", 0), ("ulp", 1)])
    nd_part(ctx, tier)
    from props import collection
    collection.run_part(ctx, tier)       # HistogramCollection: create / add / sum / normalize_* / copy / round trip / refusals
    ctx.assumptions = ["results whose denominator is a power of two are compared bit-exactly, others (division by 3, "
                       "normalisation) within 16 ulp", "scalars: python int/float, numpy float32/int16"]
    return ctx.finish("TLC enumerates chains of h*c, c*h, h*=c, h/c, h/=c, normalize (copy/inplace, percent) and the refused "
                      "variants on seed histograms (int/float, tracked or untracked missed values, gapped); after each call all "
                      "live objects are compared with the pool: contents c, errors c^2, missed c, bins, dtype, statistics")


def nd_part(ctx, tier):
    """ND histograms: scaling incl. the missed counter (tracked or not), normalize, partial_normalize."""
    from lib.a_nd import NDAdapter
    from lib.embed import POS, WTS
    cfg = "MC_HistND_c06q" if tier == "quick" else "MC_HistND_c06t"
    _res, g = ctx.model_check(cfg, required_actions=["FromArraysM", "ScaleND", "NormalizeND", "PartialNorm"])
    view = {"accepted", "class", "bins", "freq", "err2", "missed", "total", "names", "live"}
    # identity weight embedding only: a normalised content no longer scales with the weight unit
    for pe, we, sp in [("dyadic", "int", 0), ("ulp", "float1", 1)]:
        ctx.replay(g, NDAdapter(POS[pe], WTS[we], spelling=sp), view, label=f"ND:{pe}/{we}/sp{sp}")
