"""C01 - 1D construction: each value counted once, in the bin that contains it."""
from lib.a_hist1d import Hist1DAdapter
from lib.embed import POS, WTS
from lib.runner import CheckContext

VIEW = {"accepted", "bins", "freq", "err2", "under", "over", "total"}
INVARIANTS = ["BinContents", "SquaredErrors", "Accounting", "GapCountsNowhere", "LastBinRightClosed", "Shapes"]


def run(tier, seed):
    ctx = CheckContext("C01", tier, seed)
    ctx.invariants = INVARIANTS
    if tier == "thorough":
        ctx.model_check("MC_Hist1D_thorough", dump=False)      # deep exhaustive run of the invariants (too large to replay)
    cfg = "MC_Hist1D_quick" if tier == "quick" else "MC_Hist1D_mid"
    _res, g = ctx.model_check(cfg, required_actions=["NewEmpty", "Construct", "Fill", "FillN", "FindBin"])
    # C01 is about construction: compare the Construct / NewEmpty transitions under every embedding
    combos = [("dyadic", "int", 0), ("decimal", "half", 1), ("ulp", "int", 2), ("huge", "npint", 3),
              ("tiny", "half", 0), ("offset", "quarter32", 1), ("neg", "float1", 2)]
    if tier == "thorough":
        combos += [("int", "int16", 3), ("ulp", "half", 1), ("decimal", "int", 2), ("dyadic", "quarter32", 3)]
    for pe, we, sp in combos:
        ad = Hist1DAdapter(POS[pe], WTS[we], spelling=sp)
        ctx.replay(only_actions(g, {"NewEmpty", "Construct"}), ad, VIEW, label=f"{pe}/{we}/sp{sp}")
    # engine T: random float data, bins from method names, rank-abstracted and validated by TLC against Hist1D
    from props import trace_h1
    trace_h1.run_part(ctx, tier, seed_offset=11)
    ctx.assumptions = ["binning depends only on the order of values and edges (embedding fan-out)",
                       "TLC, the TLA+ value parser and the adapter's exact Fraction comparison are trusted"]
    return ctx.finish("every NewEmpty/Construct transition of the TLC state graph of Hist1D is executed through physt.h1 / "
                      "Histogram1D under each (position embedding, weight embedding, argument spelling); a case class is "
                      "(action, consecutive|gapped, keep, weighted, set of position classes in the data)")


def only_actions(g, names):
    """Sub-graph with only the transitions of the named actions (from the initial states)."""
    from lib.tlc import Graph
    out = {}
    n = 0
    for s, outs in g.out.items():
        sel = [(lab, d) for (lab, d) in outs if lab[0] in names]
        if sel:
            out[s] = sel
            n += len(sel)
    return Graph(g.nodes, g.init, out, n)
