#!/bin/sh
# Offline setup: checks the tools and parses every specification module.
set -e
cd "$(dirname "$0")"
java -version 2>&1 | head -1
/venv/bin/python -c "import physt, numpy; print('physt', physt.__version__, 'numpy', numpy.__version__)"
mkdir -p .scratch/jtmp evidence
cd spec
for f in MC_*.tla; do
  java -Djava.io.tmpdir=../.scratch/jtmp -cp /opt/veriftools/tla/tla2tools.jar:/opt/veriftools/tla/CommunityModules-deps.jar tla2sany.SANY "$f" > ../.scratch/sany.log 2>&1 || { cat ../.scratch/sany.log; exit 1; }
done
cd ..
rm -rf .scratch/jtmp
echo "setup ok"
